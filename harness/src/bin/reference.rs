//! C17: rrtk::Reference.
//!   reference replay <behaviours.ndjson> <seed>      behaviours emitted by TLC from spec/Reference.tla
//!   reference threads <out.ndjson> <seed> <k>        real threads incrementing through References, trace for spec/RefThreadsTrace.tla
use rrtk::*;
use rrtk_conform::*;
use serde_json::{json, Value};
use std::io::Write;
use std::sync::atomic::{AtomicUsize, Ordering};
use std::sync::{Arc, Mutex, RwLock};

trait Val {
    fn get(&self) -> i64;
    fn put(&mut self, v: i64);
}
struct Payload {
    v: i64,
    drops: Arc<AtomicUsize>,
}
impl Val for Payload {
    fn get(&self) -> i64 {
        self.v
    }
    fn put(&mut self, v: i64) {
        self.v = v
    }
}
impl Drop for Payload {
    fn drop(&mut self) {
        self.drops.fetch_add(1, Ordering::SeqCst);
    }
}
enum H {
    C(Reference<Payload>),
    D(Reference<dyn Val>),
    Gone,
}
fn make(variant: &str, drops: &Arc<AtomicUsize>) -> Reference<Payload> {
    let p = Payload { v: 0, drops: drops.clone() };
    match variant {
        "Ptr" => unsafe { Reference::from_ptr(Box::leak(Box::new(p)) as *mut Payload) },
        "RcRefCell" => rc_ref_cell_reference(p),
        "PtrRwLock" => unsafe { Reference::from_ptr_rw_lock(Box::leak(Box::new(RwLock::new(p))) as *const RwLock<Payload>) },
        "PtrMutex" => unsafe { Reference::from_ptr_mutex(Box::leak(Box::new(Mutex::new(p))) as *const Mutex<Payload>) },
        "ArcRwLock" => arc_rw_lock_reference(p),
        "ArcMutex" => arc_mutex_reference(p),
        v => {
            eprintln!("unknown variant {v}");
            std::process::exit(2)
        }
    }
}
fn read(h: &H) -> Option<i64> {
    match h {
        H::C(r) => Some(r.borrow().get()),
        H::D(r) => Some(r.borrow().get()),
        H::Gone => None,
    }
}

type Bad = Option<(usize, String, Value, Value)>;
fn replay(beh: &Value) -> Bad {
    let variant = s(beh, "variant");
    let drops = Arc::new(AtomicUsize::new(0));
    let mut hs: Vec<H> = vec![H::C(make(variant, &drops))];
    for (idx, st) in beh["steps"].as_array().unwrap().iter().enumerate() {
        let a = &st["a"];
        let h = i(a, "h") as usize - 1;
        let op = s(a, "op");
        let r: Result<Option<i64>, String> = match op {
            "clone" => {
                let n = match &hs[h] {
                    H::C(r) => H::C(r.clone()),
                    H::D(r) => H::D(r.clone()),
                    H::Gone => H::Gone,
                };
                hs.push(n);
                Ok(None)
            }
            "to_dyn" => {
                let old = std::mem::replace(&mut hs[h], H::Gone);
                match old {
                    H::C(r) => match catch(move || to_dyn!(Val, r)) {
                        Ok(d) => {
                            if s(a, "outcome") != "converted" {
                                return Some((usize::MAX, "inapplicable".into(), json!(null), json!(null))); // the build converts this variant: other branch of the specification
                            }
                            hs.push(H::D(d));
                            Ok(None)
                        }
                        Err(p) if p.contains("not implemented") && !matches!(variant, "Ptr" | "RcRefCell" | "PtrRwLock") => {
                            if s(a, "outcome") != "refused" {
                                return Some((usize::MAX, "inapplicable".into(), json!(null), json!(null))); // the build refuses this variant
                            }
                            Ok(None)
                        }
                        Err(p) => Err(p),
                    },
                    _ => Ok(None),
                }
            }
            "write" => {
                let v = i(a, "v");
                catch(|| {
                    match &hs[h] {
                        H::C(r) => r.borrow_mut().put(v),
                        H::D(r) => r.borrow_mut().put(v),
                        H::Gone => {}
                    }
                    None
                })
            }
            "read" => catch(|| read(&hs[h])),
            _ => {
                hs[h] = H::Gone;
                Ok(None)
            }
        };
        let caller = format!("caller features: alloc={} std={}", cfg!(feature = "alloc"), cfg!(feature = "std"));
        match r {
            Err(p) => return Some((idx, format!("{op} on a {variant} Reference panicked ({caller})"), json!("no panic"), json!(p))),
            Ok(Some(v)) if v != i(st, "value") => return Some((idx, format!("value read through handle {} ({variant})", h + 1), st["value"].clone(), json!(v))),
            _ => {}
        }
        let live_exp: Vec<bool> = st["live"].as_array().unwrap().iter().map(|x| x != "x").collect();
        let live_got: Vec<bool> = hs.iter().map(|x| !matches!(x, H::Gone)).collect();
        if live_exp != live_got {
            eprintln!("harness bookkeeping out of step with the specification at step {idx}");
            std::process::exit(2);
        }
        let dropped = drops.load(Ordering::SeqCst) > 0;
        if dropped != st["dropped"].as_bool().unwrap() {
            return Some((idx, format!("target of the {variant} Reference dropped (it must stay alive exactly as long as a handle exists)"), st["dropped"].clone(), json!(dropped)));
        }
        // every live handle shows the value last written, whichever handle wrote it
        for (k, hh) in hs.iter().enumerate() {
            if let Some(v) = read(hh) {
                if v != i(st, "value") {
                    return Some((idx, format!("after {op}: value seen through handle {} of {variant}", k + 1), st["value"].clone(), json!(v)));
                }
            }
        }
    }
    None
}

fn threads(path: &str, seed: u64, k: usize) {
    let mut f = std::io::BufWriter::new(std::fs::File::create(path).expect("create trace"));
    let mut rng = Rng::new(seed);
    for variant in ["ArcMutex", "ArcRwLock", "PtrMutex", "PtrRwLock"] {
        for n in [2usize, 3 + (rng.below(3) as usize), 8] {
            writeln!(f, "{}", json!({"k": "start", "variant": variant, "n": n, "kk": k})).unwrap();
            // one shared object; every thread builds its own Reference over it
            let am = Arc::new(Mutex::new(0i64));
            let ar = Arc::new(RwLock::new(0i64));
            let pm: &'static Mutex<i64> = Box::leak(Box::new(Mutex::new(0i64)));
            let pr: &'static RwLock<i64> = Box::leak(Box::new(RwLock::new(0i64)));
            let (pm_addr, pr_addr) = (pm as *const Mutex<i64> as usize, pr as *const RwLock<i64> as usize);
            let mut joins = vec![];
            for th in 0..n {
                let (am, ar) = (am.clone(), ar.clone());
                let variant = variant.to_string();
                joins.push(std::thread::spawn(move || {
                    let r: Reference<i64> = match variant.as_str() {
                        "ArcMutex" => Reference::from_arc_mutex(am),
                        "ArcRwLock" => Reference::from_arc_rw_lock(ar),
                        "PtrMutex" => unsafe { Reference::from_ptr_mutex(pm_addr as *const Mutex<i64>) },
                        _ => unsafe { Reference::from_ptr_rw_lock(pr_addr as *const RwLock<i64>) },
                    };
                    let r2 = r.clone();
                    let mut log: Vec<(usize, usize, i64, i64)> = Vec::with_capacity(k);
                    for sq in 0..k {
                        let which = if sq % 2 == 0 { &r } else { &r2 };
                        let res = catch(|| {
                            let mut g = which.borrow_mut();
                            let old = *g;
                            *g = old + 1;
                            (old, old + 1) // logged under the guard
                        });
                        match res {
                            Ok((old, new)) => log.push((th + 1, sq + 1, old, new)),
                            Err(_) => return (log, true),
                        }
                    }
                    (log, false)
                }));
            }
            let mut all = vec![];
            let mut panicked = vec![];
            for (th, j) in joins.into_iter().enumerate() {
                match j.join() {
                    Ok((log, p)) => {
                        all.extend(log);
                        if p {
                            panicked.push(th + 1);
                        }
                    }
                    Err(_) => panicked.push(th + 1),
                }
            }
            // the counter value is the linearisation order
            all.sort_by_key(|e| e.3);
            for e in &all {
                writeln!(f, "{}", json!({"k": "inc", "th": e.0, "seq": e.1, "old": e.2, "new": e.3})).unwrap();
            }
            for th in panicked {
                writeln!(f, "{}", json!({"k": "panic", "th": th})).unwrap();
            }
            let total = match variant {
                "ArcMutex" => *am.lock().unwrap_or_else(|e| e.into_inner()),
                "ArcRwLock" => *ar.read().unwrap_or_else(|e| e.into_inner()),
                "PtrMutex" => *pm.lock().unwrap_or_else(|e| e.into_inner()),
                _ => *pr.read().unwrap_or_else(|e| e.into_inner()),
            };
            writeln!(f, "{}", json!({"k": "end", "total": total})).unwrap();
        }
    }
    f.flush().unwrap();
}

fn main() {
    silence_panics();
    let args: Vec<String> = std::env::args().collect();
    if args.len() >= 5 && args[1] == "record" {
        threads(&args[2], args[3].parse().unwrap_or(1), args[4].parse().unwrap_or(1000));
        println!("SUMMARY {}", json!({"recorded": true}));
        return;
    }
    if args.len() < 4 || args[1] != "replay" {
        eprintln!("usage: reference replay <behaviours.ndjson> <seed> | reference record <out> <seed> <k>");
        std::process::exit(2);
    }
    let lines = read_lines(&args[2]);
    let only: Option<usize> = args.iter().position(|a| a == "--only").map(|p| args[p + 1].parse().unwrap());
    let mut rep = Report::new();
    for (ln, l) in lines.iter().enumerate() {
        if let Some(o) = only {
            if o != ln {
                continue;
            }
        }
        let beh: Value = serde_json::from_str(l).unwrap_or_else(|e| {
            eprintln!("bad line {ln}: {e}");
            std::process::exit(2)
        });
        rep.count("behaviours", 1);
        rep.count("replays", 1);
        let steps = beh["steps"].as_array().unwrap();
        if steps.iter().any(|st| st["a"]["op"] == "write") && steps.iter().any(|st| st["a"]["op"] == "clone" || st["a"]["op"] == "to_dyn") {
            rep.count("nontrivial", 1);
        }
        let res = replay(&beh);
        if matches!(&res, Some((usize::MAX, _, _, _))) {
            rep.count("inapplicable_branch", 1);
            continue;
        }
        if let Some((step, what, exp, got)) = res {
            rep.mismatch(json!({"line": ln, "variant": beh["variant"], "step": step, "what": what, "exp": exp, "got": got,
                                "caller_alloc": cfg!(feature = "alloc"), "caller_std": cfg!(feature = "std")}));
        }
    }
    rep.finish();
}
