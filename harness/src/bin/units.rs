//! Replay of the cases emitted by TLC from spec/Units.tla against rrtk's dimensional analysis.
//!
//! usage: units replay <cases.ndjson> <seed> [--only <line>]
use core::cmp::Ordering;
use rrtk::*;
use rrtk_conform::*;
use serde_json::{json, Value};

#[derive(Debug)]
enum Res {
    Q(Quantity),
    U(Unit),
    B(bool),
    O(Option<Ordering>),
}
fn unit(u: &Value) -> Unit {
    Unit::new(u[0].as_i64().unwrap() as i8, u[1].as_i64().unwrap() as i8)
}
/// the raw value of a Time operand is what the crate's own conversion makes of it (how accurate that conversion is, is C18's business)
fn secs(t: Time) -> f32 {
    Quantity::from(t).value
}

/// a non-zero integer of 1..60 significant bits, either sign, low bits random
fn big_int(r: &mut Rng) -> i64 {
    let bits = r.range(1, 60) as u32;
    let v = ((r.next() >> (64 - bits)) | (1u64 << (bits - 1))) as i64;
    if r.next() & 1 == 0 { v } else { -v }
}

struct Vals {
    v1: f32,
    v2: f32,
    t1: Time,
    t2: Time,
    d1: DimensionlessInteger,
    d2: DimensionlessInteger,
}

/// the real operation
fn real(form: &str, assign: bool, l: &Value, r: &Value, v: &Vals) -> Res {
    let (lk, rk) = (s(l, "k"), s(r, "k"));
    let ql = || Quantity::new(v.v1, unit(&l["u"]));
    let qr = || Quantity::new(v.v2, unit(&r["u"]));
    macro_rules! arith {
        ($a:expr, $b:expr, $wrap:path) => {{
            let (a, b) = ($a, $b);
            if assign {
                let mut m = a;
                match form {
                    "add" => m += b,
                    "sub" => m -= b,
                    "mul" => m *= b,
                    _ => m /= b,
                }
                $wrap(m)
            } else {
                $wrap(match form {
                    "add" => a + b,
                    "sub" => a - b,
                    "mul" => a * b,
                    _ => a / b,
                })
            }
        }};
    }
    macro_rules! arith_noassign {
        ($a:expr, $b:expr) => {{
            let (a, b) = ($a, $b);
            Res::Q(match form {
                "add" => a + b,
                "sub" => a - b,
                "mul" => a * b,
                _ => a / b,
            })
        }};
    }
    match (lk, rk, form) {
        ("q", "q", "neg") => Res::Q(-ql()),
        ("q", "q", "abs") => Res::Q(ql().abs()),
        ("u", "u", "neg") => Res::U(-unit(&l["u"])),
        ("q", "q", "lt") => Res::B(ql() < qr()),
        ("q", "q", "le") => Res::B(ql() <= qr()),
        ("q", "q", "gt") => Res::B(ql() > qr()),
        ("q", "q", "ge") => Res::B(ql() >= qr()),
        ("q", "q", "pcmp") => Res::O(ql().partial_cmp(&qr())),
        ("q", "q", "eq") => Res::B(ql() == qr()),
        #[cfg(feature = "dimcheck")]
        ("u", "u", "eq") => Res::B(unit(&l["u"]) == unit(&r["u"])),
        #[cfg(not(feature = "dimcheck"))]
        ("u", "u", "eq") => Res::B(true),
        ("q", "q", _) => arith!(ql(), qr(), Res::Q),
        ("u", "u", _) => arith!(unit(&l["u"]), unit(&r["u"]), Res::U),
        ("q", "t", _) => arith!(ql(), v.t2, Res::Q),
        ("q", "di", _) => arith!(ql(), v.d2, Res::Q),
        ("t", "q", _) => arith_noassign!(v.t1, qr()),
        ("di", "q", _) => arith_noassign!(v.d1, qr()),
        ("t", "t", "mul") => Res::Q(v.t1 * v.t2),
        ("t", "t", "div") => Res::Q(v.t1 / v.t2),
        ("di", "t", "div") => Res::Q(v.d1 / v.t2),
        x => {
            eprintln!("form not implemented in the harness: {x:?}");
            std::process::exit(2)
        }
    }
}
fn raw(o: &Value, first: bool, v: &Vals) -> f32 {
    match (s(o, "k"), first) {
        ("q", true) | ("u", true) => v.v1,
        ("q", false) | ("u", false) => v.v2,
        ("t", true) => secs(v.t1),
        ("t", false) => secs(v.t2),
        ("di", true) => v.d1.0 as f32,
        (_, _) => v.d2.0 as f32,
    }
}
/// equal as f32 values (the two zeros are equal, NaN matches NaN) ...
fn same(a: f32, b: f32) -> bool {
    a == b || (a.is_nan() && b.is_nan())
}
/// ... and still equal after a sign-sensitive continuation of the program (1 / x tells the two zeros apart as +inf / -inf)
fn same_through_division(a: f32, b: f32) -> bool {
    same(a, b) && same(1.0 / a, 1.0 / b)
}

fn grid_case(rec: &Value, rng: &mut Rng) -> Option<(String, Value, Value)> {
    let cs = &rec["case"];
    let res = &rec["res"];
    let form = s(cs, "form");
    let assign = cs["assign"].as_bool().unwrap();
    let (l, r) = (&cs["l"], &cs["r"]);
    for round in 0..8 {
        // rounds 3 and 4: the two zeros (the sign of zero must come out as with the plain f32 operator);
        // rounds 5..7: both operands zero with opposite signs, and equal operands (comparisons must answer as f32 does: -0.0 == +0.0,
        // neither is less than the other)
        let v1 = match round { 3 | 6 => 0.0, 4 | 5 => -0.0, _ => rng.float(-12, 12) };
        let v = Vals {
            v1,
            v2: match round { 5 => 0.0, 6 => -0.0, 7 => v1, 0 if form == "eq" => v1, _ => rng.float(-12, 12) },
            t1: Time(rng.range(-4_000_000_000_000, 4_000_000_000_000)),
            t2: Time(rng.range(1, 4_000_000_000_000) * if rng.next() & 1 == 0 { 1 } else { -1 }),
            // integers: small in the first rounds, then stratified over magnitudes up to 2^60 with random low bits (an integer that f32
            // cannot hold exactly shows whether the operator works on the converted operand, as the plain f32 operator does)
            d1: DimensionlessInteger(if round < 2 { rng.range(-100_000, 100_000) } else { big_int(rng) }),
            d2: DimensionlessInteger(if round < 2 { rng.range(1, 100_000) * if rng.next() & 1 == 0 { 1 } else { -1 } } else { big_int(rng) }),
        };
        let got = catch(|| real(form, assign, l, r, &v));
        let exp_panic = res["panic"].as_bool().unwrap();
        let inputs = json!({"v1": v.v1, "v2": v.v2, "t1": v.t1.0, "t2": v.t2.0, "d1": v.d1.0, "d2": v.d2.0});
        match (&got, exp_panic) {
            (Err(_), true) => continue,
            (Err(p), false) => return Some(("the operation panicked".into(), json!({"panic": false, "unit": res["unit"]}), json!({"panic": p, "inputs": inputs}))),
            (Ok(g), true) => return Some(("the operation must panic on a unit mismatch".into(), json!({"panic": true}), json!({"result": format!("{g:?}"), "inputs": inputs}))),
            (Ok(_), false) => {}
        }
        let (lv, rv) = (raw(l, true, &v), raw(r, false, &v));
        let (eu_m, eu_s) = (res["unit"][0].as_i64().unwrap(), res["unit"][1].as_i64().unwrap());
        match got.unwrap() {
            Res::Q(q) => {
                if !unit_is(q.unit, eu_m, eu_s) {
                    return Some(("unit of the result".into(), res["unit"].clone(), json!(unit_exps(q.unit))));
                }
                let ev = match form {
                    "add" => lv + rv,
                    "sub" => lv - rv,
                    "mul" => lv * rv,
                    "div" => lv / rv,
                    "neg" => -lv,
                    _ => lv.abs(),
                };
                if !same_through_division(q.value, ev) {
                    return Some(("numeric part of the result (as an f32 value, and as the divisor of a later division: 1/x)".into(),
                                 json!({"value": ev, "bits": ev.to_bits(), "one_over": 1.0 / ev}), json!({"value": q.value, "bits": q.value.to_bits(), "one_over": 1.0 / q.value, "inputs": inputs})));
                }
            }
            Res::U(u) => {
                if !unit_is(u, eu_m, eu_s) {
                    return Some(("unit of the result (bare units)".into(), res["unit"].clone(), json!(unit_exps(u))));
                }
            }
            Res::B(b) => {
                let eb = match form {
                    "lt" => lv < rv,
                    "le" => lv <= rv,
                    "gt" => lv > rv,
                    "ge" => lv >= rv,
                    _ => {
                        let ue = res["uniteq"].as_bool().unwrap();
                        if s(l, "k") == "u" { ue } else { ue && lv == rv }
                    }
                };
                if b != eb {
                    return Some((format!("result of comparison {form}"), json!(eb), json!({"got": b, "inputs": inputs})));
                }
            }
            Res::O(o) => {
                if o != lv.partial_cmp(&rv) {
                    return Some(("result of partial_cmp".into(), json!(format!("{:?}", lv.partial_cmp(&rv))), json!(format!("{o:?}"))));
                }
            }
        }
    }
    None
}

fn pd(k: i64) -> PositionDerivative {
    match k {
        0 => PositionDerivative::Position,
        1 => PositionDerivative::Velocity,
        _ => PositionDerivative::Acceleration,
    }
}
#[allow(dead_code)]
fn pdk(p: PositionDerivative) -> i64 {
    match p {
        PositionDerivative::Position => 0,
        PositionDerivative::Velocity => 1,
        PositionDerivative::Acceleration => 2,
    }
}
#[allow(dead_code)]
fn opt_k(v: &Value) -> Option<i64> {
    v.as_array().unwrap().first().map(|x| x.as_i64().unwrap())
}

fn name_case(rec: &Value, rng: &mut Rng, used: &mut std::collections::HashSet<String>) -> Option<(String, Value, Value)> {
    let cs = &rec["case"];
    match s(cs, "form") {
        "name" => {
            let name = cs["tokens"].as_array().unwrap().iter().map(|t| t.as_str().unwrap()).collect::<Vec<_>>().join("_");
            used.insert(name.clone());
            let (m, sx) = (cs["u"][0].as_i64().unwrap(), cs["u"][1].as_i64().unwrap());
            match UNIT_CONSTS.iter().find(|(n, _)| *n == name) {
                None => Some((format!("the documented constant {name} does not exist"), cs["u"].clone(), json!(null))),
                Some((_, u)) if !unit_is(*u, m, sx) => Some((format!("exponents of the constant {name}"), cs["u"].clone(), json!(unit_exps(*u)))),
                _ => None,
            }
        }
        "unit_from_pd" => {
            let u = Unit::from(pd(i(cs, "k")));
            let (m, sx) = (cs["unit"][0].as_i64().unwrap(), cs["unit"][1].as_i64().unwrap());
            if unit_is(u, m, sx) { None } else { Some(("Unit::from(PositionDerivative)".into(), cs["unit"].clone(), json!(unit_exps(u)))) }
        }
        "quantity_from_command" => {
            let v = rng.float(-10, 10);
            let q = Quantity::from(Command::new(pd(i(cs, "k")), v));
            let (m, sx) = (cs["unit"][0].as_i64().unwrap(), cs["unit"][1].as_i64().unwrap());
            if unit_is(q.unit, m, sx) && same(q.value, v) { None } else { Some(("Quantity::from(Command)".into(), cs["unit"].clone(), json!({"unit": unit_exps(q.unit), "value": q.value, "in": v}))) }
        }
        "unit_from_piece" => {
            let piece = [MotionProfilePiece::BeforeStart, MotionProfilePiece::InitialAcceleration, MotionProfilePiece::ConstantVelocity,
                         MotionProfilePiece::EndAcceleration, MotionProfilePiece::Complete][i(cs, "p") as usize];
            let got = Unit::try_from(piece);
            let exp = cs["res"].as_array().unwrap().first();
            let ok = match (exp, &got) {
                (None, Err(())) => true,
                (Some(u), Ok(g)) => unit_is(*g, u[0].as_i64().unwrap(), u[1].as_i64().unwrap()),
                _ => false,
            };
            if ok { None } else { Some(("Unit::try_from(MotionProfilePiece)".into(), cs["res"].clone(), json!(got.ok().map(unit_exps)))) }
        }
        #[cfg(feature = "dimcheck")]
        "pd_from_unit" => {
            let got = PositionDerivative::try_from(unit(&cs["u"])).ok().map(pdk);
            if got == opt_k(&cs["res"]) { None } else { Some(("PositionDerivative::try_from(Unit)".into(), cs["res"].clone(), json!(got))) }
        }
        #[cfg(feature = "dimcheck")]
        "command_from_quantity" => {
            let v = rng.float(-10, 10);
            let got = Command::try_from(Quantity::new(v, unit(&cs["u"])));
            let ok = match (opt_k(&cs["res"]), &got) {
                (None, Err(())) => true,
                (Some(k), Ok(c)) => pdk(PositionDerivative::from(*c)) == k && same(f32::from(*c), v),
                _ => false,
            };
            if ok { None } else { Some(("Command::try_from(Quantity)".into(), cs["res"].clone(), json!(format!("{got:?}")))) }
        }
        _ => None,
    }
}

fn walk(rec: &Value, rng: &mut Rng) -> Option<(String, Value, Value)> {
    let steps = rec["steps"].as_array().unwrap();
    let mut q = Quantity::new(rng.float(-3, 3), unit(&steps[0]["unit"]));
    let mut u = unit(&steps[0]["unit"]);
    for (k, st) in steps.iter().enumerate().skip(1) {
        let w = unit(&st["w"]);
        let v2 = rng.float(-3, 3);
        let form = s(st, "form").to_string();
        let (q0, u0) = (q, u);
        let f2 = form.clone();
        let rq = catch(move || match f2.as_str() {
            "mul" => q0 * Quantity::new(v2, w),
            "div" => q0 / Quantity::new(v2, w),
            "add" => q0 + Quantity::new(v2, w),
            "sub" => q0 - Quantity::new(v2, w),
            _ => -q0,
        });
        let f3 = form.clone();
        let ru = catch(move || match f3.as_str() {
            "mul" => u0 * w,
            "div" => u0 / w,
            "add" => u0 + w,
            "sub" => u0 - w,
            _ => -u0,
        });
        let exp_panic = st["panic"].as_bool().unwrap();
        if rq.is_err() != exp_panic || ru.is_err() != exp_panic {
            return Some((format!("step {k} ({form}): panic on quantities / on bare units"), json!(exp_panic), json!([rq.is_err(), ru.is_err()])));
        }
        if exp_panic {
            return None;
        }
        q = rq.unwrap();
        u = ru.unwrap();
        let (m, sx) = (st["unit"][0].as_i64().unwrap(), st["unit"][1].as_i64().unwrap());
        if !unit_is(q.unit, m, sx) || !unit_is(u, m, sx) {
            return Some((format!("step {k} ({form}): unit after the operation (quantity, bare unit)"), st["unit"].clone(), json!([unit_exps(q.unit), unit_exps(u)])));
        }
    }
    None
}

fn main() {
    silence_panics();
    let args: Vec<String> = std::env::args().collect();
    if args.len() < 4 || args[1] != "replay" {
        eprintln!("usage: units replay <cases.ndjson> <seed> [--only <line>]");
        std::process::exit(2);
    }
    let lines = read_lines(&args[2]);
    let seed: u64 = args[3].parse().unwrap_or(1);
    let only: Option<usize> = args.iter().position(|a| a == "--only").map(|p| args[p + 1].parse().unwrap());
    let mut rng = Rng::new(seed);
    let mut rep = Report::new();
    let mut used = std::collections::HashSet::new();
    let mut saw_names = false;
    for (ln, l) in lines.iter().enumerate() {
        if let Some(o) = only {
            if o != ln {
                continue;
            }
        }
        let rec: Value = serde_json::from_str(l).unwrap_or_else(|e| {
            eprintln!("bad line {ln}: {e}");
            std::process::exit(2)
        });
        if rec["dimcheck"].as_bool() != Some(DIMCHECK) {
            eprintln!("cases were generated for DimCheck={} but the harness was built with {}", rec["dimcheck"], DIMCHECK);
            std::process::exit(2);
        }
        rep.count("behaviours", 1);
        rep.count("replays", 3);
        let r = match s(&rec, "family") {
            "grid" => {
                if rec["case"]["l"]["u"] != rec["case"]["r"]["u"] {
                    rep.count("nontrivial", 1);
                }
                grid_case(&rec, &mut rng)
            }
            "names" => {
                saw_names = true;
                rep.count("nontrivial", 1);
                name_case(&rec, &mut rng, &mut used)
            }
            _ => {
                rep.count("nontrivial", 1);
                walk(&rec, &mut rng)
            }
        };
        if let Some((what, exp, got)) = r {
            rep.mismatch(json!({"line": ln, "family": rec["family"], "what": what, "exp": exp, "got": got}));
        }
    }
    if saw_names && only.is_none() {
        let extra: Vec<&str> = UNIT_CONSTS.iter().map(|(n, _)| *n).filter(|n| !used.contains(*n)).collect();
        rep.count("constants_in_tree", UNIT_CONSTS.len() as u64);
        rep.count("constants_outside_grammar", extra.len() as u64);
        if !extra.is_empty() {
            println!("NOTE constants whose names the documented grammar does not produce: {extra:?}");
        }
    }
    rep.finish();
}
