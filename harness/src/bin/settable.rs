//! C15: replay of behaviours emitted by TLC from spec/Settable.tla.
//! usage: settable replay <behaviours.ndjson> <seed> [--only <line>]
use rrtk::*;
use rrtk_conform::*;
use serde_json::{json, Value};
use std::cell::RefCell;
use std::rc::Rc;

/// a settable whose impl_set succeeds or fails as scripted and records every attempt
struct Probe {
    data: SettableData<i64, E>,
    next_ok: Rc<RefCell<bool>>,
    attempts: Rc<RefCell<Vec<(i64, bool)>>>,
}
impl Settable<i64, E> for Probe {
    fn impl_set(&mut self, value: i64) -> NothingOrError<E> {
        let ok = *self.next_ok.borrow();
        self.attempts.borrow_mut().push((value, ok));
        if ok { Ok(()) } else { Err(Error::Other(7)) }
    }
    fn get_settable_data_ref(&self) -> &SettableData<i64, E> {
        &self.data
    }
    fn get_settable_data_mut(&mut self) -> &mut SettableData<i64, E> {
        &mut self.data
    }
}
impl Updatable<E> for Probe {
    fn update(&mut self) -> NothingOrError<E> {
        self.update_following_data()
    }
}

fn getter_outcome(o: &Value, t: Time) -> Output<i64, E> {
    match s(o, "c") {
        "err" => Err(mk_err(i(o, "e"))),
        "none" => Ok(None),
        _ => Ok(Some(Datum::new(t, i(o, "v")))),
    }
}
fn dyn_i64(c: &Scripted<i64>) -> Reference<dyn Getter<i64, E>> {
    Reference::from_rc_ref_cell(Rc::new(RefCell::new(CellGetter { cell: c.cell.clone(), reads: c.reads.clone() })) as Rc<RefCell<dyn Getter<i64, E>>>)
}
fn opt_i64(v: &Value) -> Option<i64> {
    v.as_array().unwrap().first().map(|x| x.as_i64().unwrap())
}

type Bad = Option<(usize, String, Value, Value)>;

fn follow_family(steps: &[Value], use_constant_getter: bool) -> Bad {
    // variant A: the probe (failing sets possible); variant B: the crate's own ConstantGetter as the settable (sets never fail)
    let g = Scripted::<i64>::new();
    let next_ok = Rc::new(RefCell::new(true));
    let attempts = Rc::new(RefCell::new(Vec::new()));
    let mut probe = Probe { data: SettableData::new(), next_ok: next_ok.clone(), attempts: attempts.clone() };
    let clock = ScriptedClock::new();
    let mut cg: ConstantGetter<i64, CellClock, E> = ConstantGetter::new(clock.getter.clone(), -1);
    let mut cg_values: Vec<i64> = vec![];
    for (idx, st) in steps.iter().enumerate() {
        let a = &st["a"];
        let r: Result<NothingOrError<E>, String> = catch(|| match s(a, "op") {
            "set" => if use_constant_getter { cg.set(i(a, "v")) } else { probe.set(i(a, "v")) },
            "nextok" => {
                *next_ok.borrow_mut() = a["b"].as_bool().unwrap();
                Ok(())
            }
            "follow" => {
                if use_constant_getter { cg.follow(dyn_i64(&g)) } else { probe.follow(dyn_i64(&g)) }
                Ok(())
            }
            "stop" => {
                if use_constant_getter { cg.stop_following() } else { probe.stop_following() }
                Ok(())
            }
            "getter" => {
                // the followed datum's timestamp runs backwards: following must not depend on it
                g.set(getter_outcome(&a["o"], Time(1_000 - 7 * idx as i64)));
                Ok(())
            }
            _ => if use_constant_getter { cg.update() } else { probe.update() },
        });
        if !ret_matches(&st["ret"], &r) {
            return Some((idx, format!("return value of {}", s(a, "op")), st["ret"].clone(), ret_json(&r)));
        }
        let exp_last = opt_i64(&st["obs"]["lastReq"]);
        let exp_att: Vec<(i64, bool)> = st["obs"]["attempts"].as_array().unwrap().iter().map(|x| (i(x, "v"), x["ok"].as_bool().unwrap())).collect();
        if use_constant_getter {
            let last = cg.get_last_request();
            // what the constant getter now returns is the last value it was set to
            let now: Option<i64> = cg.get().ok().flatten().map(|d| d.value);
            if let Some(v) = exp_att.last() {
                if cg_values.len() < exp_att.len() {
                    cg_values.push(v.0);
                }
            }
            if last != exp_last || (exp_last.is_some() && now != exp_last) {
                return Some((idx, "ConstantGetter as a settable: last request / value after the operation".into(), json!(exp_last), json!({"last": last, "value": now})));
            }
        } else {
            let last = probe.get_last_request();
            if last != exp_last {
                return Some((idx, "last request".into(), json!(exp_last), json!(last)));
            }
            if *attempts.borrow() != exp_att {
                return Some((idx, "values handed to impl_set so far".into(), json!(exp_att), json!(*attempts.borrow())));
            }
        }
    }
    None
}

/// The follow behaviours on a real Terminal (devices): its state slot follows a getter of state data.  impl_set never fails.
#[cfg(feature = "devices")]
fn follow_on_terminal(steps: &[Value]) -> Bad {
    let g = Scripted::<Datum<State>>::new();
    let term: &'static core::cell::RefCell<Terminal<'static, E>> = Box::leak(Box::new(Terminal::<E>::new()));
    let mk = |v: i64| Datum::new(Time(v * 11), State::new_raw(v as f32, 0.0, 0.0));
    let dynref = || -> Reference<dyn Getter<Datum<State>, E>> {
        Reference::from_rc_ref_cell(Rc::new(RefCell::new(CellGetter { cell: g.cell.clone(), reads: g.reads.clone() })) as Rc<RefCell<dyn Getter<Datum<State>, E>>>)
    };
    for (idx, st) in steps.iter().enumerate() {
        let a = &st["a"];
        let r: Result<NothingOrError<E>, String> = catch(|| match s(a, "op") {
            "set" => term.borrow_mut().set(mk(i(a, "v"))),
            "follow" => {
                <Terminal<E> as Settable<Datum<State>, E>>::follow(&mut term.borrow_mut(), dynref());
                Ok(())
            }
            "stop" => {
                <Terminal<E> as Settable<Datum<State>, E>>::stop_following(&mut term.borrow_mut());
                Ok(())
            }
            "getter" => {
                let o = &a["o"];
                g.set(match s(o, "c") {
                    "err" => Err(mk_err(i(o, "e"))),
                    "none" => Ok(None),
                    _ => Ok(Some(Datum::new(Time(500 - idx as i64), mk(i(o, "v"))))),
                });
                Ok(())
            }
            _ => term.borrow_mut().update(),
        });
        if !ret_matches(&st["ret"], &r) {
            return Some((idx, format!("Terminal as a settable: return value of {}", s(a, "op")), st["ret"].clone(), ret_json(&r)));
        }
        let last: Option<Datum<State>> = term.borrow().get_last_request();
        let exp = opt_i64(&st["obs"]["lastReq"]).map(mk);
        if last != exp {
            return Some((idx, "Terminal as a settable: last state request".into(), json!(exp.map(|d| d.value.position)), json!(last.map(|d| d.value.position))));
        }
    }
    None
}
#[cfg(not(feature = "devices"))]
fn follow_on_terminal(_steps: &[Value]) -> Bad {
    None
}

/// a history whose value is the time it was asked for; the datum itself carries a different (sample-and-hold) timestamp
#[allow(dead_code)]
struct Recording {
    origin: i64,
    tick: i64,
}
impl History<i64, E> for Recording {
    fn get(&self, time: Time) -> Option<Datum<i64>> {
        if time.0 < self.origin {
            None
        } else {
            Some(Datum::new(Time(self.origin - 12345), time.0))
        }
    }
}
impl Updatable<E> for Recording {
    fn update(&mut self) -> NothingOrError<E> {
        Ok(())
    }
}

fn history_family(steps: &[Value], base: i64, tick: i64) -> Bad {
    // clock tick t of the specification = base + t * tick ns; history time h = h * tick ns (origin 0)
    let clock = ScriptedClock::new();
    let mut now = 10i64;
    clock.set(Ok(Time(base + now * tick)));
    let mut adapter: Option<GetterFromHistory<'static, i64, CellClock, E>> = None;
    let mk_hist = || -> &'static mut Recording { Box::leak(Box::new(Recording { origin: 0, tick })) };
    for (idx, st) in steps.iter().enumerate() {
        let a = &st["a"];
        let op = s(a, "op");
        let x = a.get("x").and_then(|v| v.as_i64()).unwrap_or(0);
        // the adapter maps clock time c to history time c + delta; in the specification both run in ticks with the
        // clock at `now`; in the concretisation the clock is offset by `base`, so history targets are x * tick
        let r: Result<NothingOrError<E>, String> = catch(|| match op {
            "advance" => {
                now += i(a, "d");
                if clock.cell.borrow().is_ok() {
                    clock.set(Ok(Time(base + now * tick)));
                }
                Ok(())
            }
            "clockerr" => {
                if a["b"].as_bool().unwrap() { clock.set(Err(mk_err(2))) } else { clock.set(Ok(Time(base + now * tick))) }
                Ok(())
            }
            "new_no_delta" => {
                // delta 0 in the specification means "history time = clock tick": with an offset clock that is delta = -base
                adapter = Some(GetterFromHistory::new_custom_delta(mk_hist(), clock.getter.clone(), Time(-base)));
                if base == 0 {
                    adapter = Some(GetterFromHistory::new_no_delta(mk_hist(), clock.getter.clone()));
                }
                Ok(())
            }
            "new_custom_delta" => {
                adapter = Some(GetterFromHistory::new_custom_delta(mk_hist(), clock.getter.clone(), Time(x * tick - base)));
                Ok(())
            }
            "new_start_at_zero" => match GetterFromHistory::new_start_at_zero(mk_hist(), clock.getter.clone()) {
                Ok(g) => {
                    adapter = Some(g);
                    Ok(())
                }
                Err(e) => {
                    adapter = None;
                    Err(e)
                }
            },
            "new_custom_start" => match GetterFromHistory::new_custom_start(mk_hist(), clock.getter.clone(), Time(x * tick)) {
                Ok(g) => {
                    adapter = Some(g);
                    Ok(())
                }
                Err(e) => {
                    adapter = None;
                    Err(e)
                }
            },
            "set_delta" => {
                if let Some(ad) = adapter.as_mut() {
                    ad.set_delta(Time(x * tick - base));
                }
                Ok(())
            }
            "set_time" => match adapter.as_mut() {
                Some(ad) => ad.set_time(Time(x * tick)),
                None => Ok(()),
            },
            _ => Ok(()),
        });
        if !ret_matches(&st["ret"], &r) {
            return Some((idx, format!("return value of {op}"), st["ret"].clone(), ret_json(&r)));
        }
        let obs = &st["obs"];
        if obs["alive"].as_bool().unwrap() != adapter.is_some() {
            return Some((idx, "an adapter exists after the operation".into(), obs["alive"].clone(), json!(adapter.is_some())));
        }
        if let Some(ad) = adapter.as_ref() {
            let g1 = catch(|| ad.get());
            let g2 = catch(|| ad.get());
            let exp = &obs["get"];
            let ok = match (&g1, s(exp, "c")) {
                (Ok(Err(e)), "err") => err_code(e) == i(exp, "e"),
                (Ok(Ok(None)), "none") => true,
                (Ok(Ok(Some(d))), "some") => d.time == Time(base + i(exp, "t") * tick) && d.value == i(exp, "v") * tick,
                _ => false,
            };
            let show = |g: &Result<Output<i64, E>, String>| match g {
                Ok(Ok(Some(d))) => json!({"c": "some", "t_ns": d.time.0, "asked_history_time_ns": d.value}),
                Ok(Ok(None)) => json!({"c": "none"}),
                Ok(Err(e)) => json!({"c": "err", "e": err_code(e)}),
                Err(p) => json!({"panic": p}),
            };
            if !ok {
                let mut e2 = exp.clone();
                if exp["c"] == "some" {
                    e2["t_ns"] = json!(base + i(exp, "t") * tick);
                    e2["asked_history_time_ns"] = json!(i(exp, "v") * tick);
                }
                return Some((idx, "get() of the history adapter (history value at now + offset, restamped with now)".into(), e2, show(&g1)));
            }
            if show(&g1) != show(&g2) {
                return Some((idx, "second get() differs".into(), show(&g1), show(&g2)));
            }
        }
    }
    None
}

fn const_family(steps: &[Value], base: i64, tick: i64) -> Bad {
    let clock = ScriptedClock::new();
    let mut now = 10i64;
    clock.set(Ok(Time(base + now * tick)));
    let g = Scripted::<i64>::new();
    let mut cg: ConstantGetter<i64, CellClock, E> = ConstantGetter::new(clock.getter.clone(), 1);
    let tg = TimeGetterFromGetter::new(g.getter.clone());
    for (idx, st) in steps.iter().enumerate() {
        let a = &st["a"];
        let op = s(a, "op");
        let r: Result<NothingOrError<E>, String> = catch(|| match op {
            "set" => cg.set(i(a, "v")),
            "follow" => {
                cg.follow(dyn_i64(&g));
                Ok(())
            }
            "stop" => {
                cg.stop_following();
                Ok(())
            }
            "getter" => {
                g.set(getter_outcome(&a["o"], Time(base + i(a, "t") * tick)));
                Ok(())
            }
            "advance" => {
                now += i(a, "d");
                if clock.cell.borrow().is_ok() {
                    clock.set(Ok(Time(base + now * tick)));
                }
                Ok(())
            }
            "clockerr" => {
                if a["b"].as_bool().unwrap() { clock.set(Err(mk_err(2))) } else { clock.set(Ok(Time(base + now * tick))) }
                Ok(())
            }
            _ => cg.update(),
        });
        if !ret_matches(&st["ret"], &r) {
            return Some((idx, format!("return value of {op}"), st["ret"].clone(), ret_json(&r)));
        }
        let obs = &st["obs"];
        let got = cg.get();
        let exp = &obs["constGet"];
        let ok = match (&got, s(exp, "c")) {
            (Err(e), "err") => err_code(e) == i(exp, "e"),
            (Ok(Some(d)), "some") => d.time == Time(base + i(exp, "t") * tick) && d.value == i(exp, "v"),
            _ => false,
        };
        if !ok {
            return Some((idx, "ConstantGetter::get (latest value at the clock's time)".into(), exp.clone(), json!(format!("{got:?}"))));
        }
        if cg.get_last_request() != opt_i64(&obs["lastReq"]) {
            return Some((idx, "ConstantGetter last request".into(), obs["lastReq"].clone(), json!(cg.get_last_request())));
        }
        let tgot = tg.get();
        let texp = &obs["timeFromGetter"];
        let tok = match (&tgot, s(texp, "c")) {
            (Err(e), "err") => err_code(e) == i(texp, "e"),
            (Ok(t), "time") => *t == Time(base + i(texp, "t") * tick),
            _ => false,
        };
        if !tok {
            return Some((idx, "TimeGetterFromGetter::get (the getter's timestamp; absent becomes FromNone)".into(), texp.clone(), json!(format!("{tgot:?}"))));
        }
    }
    // Time itself is a time getter
    let t = Time(base + 77);
    if TimeGetter::<E>::get(&t) != Ok(t) {
        return Some((0, "Time as a TimeGetter".into(), json!(t.0), json!("other")));
    }
    None
}

fn main() {
    silence_panics();
    let args: Vec<String> = std::env::args().collect();
    if args.len() < 4 || args[1] != "replay" {
        eprintln!("usage: settable replay <behaviours.ndjson> <seed> [--only <line>]");
        std::process::exit(2);
    }
    let lines = read_lines(&args[2]);
    let only: Option<usize> = args.iter().position(|a| a == "--only").map(|p| args[p + 1].parse().unwrap());
    let mut rng = Rng::new(args[3].parse().unwrap_or(1));
    // (base, tick): clock tick t = base + t * tick; history times x * tick.  No combination overflows i64.
    let mut concs: Vec<(i64, i64)> = vec![(0, 1), (-1000, 7), (i64::MAX - 1_000_000, 50), (i64::MIN + 1_000_000, 50), (1 << 50, 1_000_000_000)];
    concs.push((rng.range(-(1 << 55), 1 << 55), rng.range(1, 1_000_000)));
    let mut rep = Report::new();
    for (ln, l) in lines.iter().enumerate() {
        if let Some(o) = only {
            if o != ln {
                continue;
            }
        }
        let beh: Value = serde_json::from_str(l).unwrap_or_else(|e| {
            eprintln!("bad line {ln}: {e}");
            std::process::exit(2)
        });
        let steps = beh["steps"].as_array().unwrap();
        rep.count("behaviours", 1);
        let fam = s(&beh, "family");
        let nontrivial = match fam {
            "follow" => steps.iter().any(|st| st["a"]["op"] == "update") && steps.iter().any(|st| st["a"]["op"] == "follow"),
            "history" => steps.iter().any(|st| st["obs"]["alive"] == true),
            _ => steps.iter().any(|st| st["a"]["op"] == "update" || st["a"]["op"] == "getter"),
        };
        if nontrivial {
            rep.count("nontrivial", 1);
        }
        let mut res: Vec<(Bad, Value)> = vec![];
        match fam {
            "follow" => {
                rep.count("replays", 1);
                res.push((follow_family(steps, false), json!("probe settable")));
                let all_ok = steps.iter().all(|st| st["a"]["op"] != "nextok");
                if all_ok {
                    rep.count("replays", 2);
                    res.push((follow_family(steps, true), json!("ConstantGetter as the settable")));
                    res.push((follow_on_terminal(steps), json!("Terminal (state slot) as the settable")));
                }
            }
            "history" => {
                for (b, t) in &concs {
                    // history targets reach |x| <= 40 ticks; keep base + everything inside i64
                    rep.count("replays", 1);
                    res.push((history_family(steps, *b, *t), json!({"base": b, "tick": t})));
                }
            }
            _ => {
                for (b, t) in &concs {
                    rep.count("replays", 1);
                    res.push((const_family(steps, *b, *t), json!({"base": b, "tick": t})));
                }
            }
        }
        for (r, conc) in res {
            if let Some((step, what, exp, got)) = r {
                rep.mismatch(json!({"line": ln, "family": fam, "step": step, "what": what, "exp": exp, "got": got, "conc": conc}));
                break;
            }
        }
    }
    rep.finish();
}
