//! Replay of spec/RefGuards.tla: which borrows of a Reference may coexist within one thread.
//! usage: guards replay <behaviours.ndjson>
//! Behaviour beyond the listed properties: a disagreement is printed as a DEVIATION line (the C17 driver turns it into an
//! EXTRA-DEVIATION note, not into a violation).  Each behaviour runs in a helper thread, because a borrow the specification calls
//! available must not block: if the helper does not finish in time the behaviour is reported as blocked.
use rrtk::reference::{Borrow, BorrowMut};
use rrtk::*;
use rrtk_conform::*;
use serde_json::{json, Value};
use std::sync::{mpsc, Mutex, RwLock};
use std::time::Duration;

enum G {
    R(Borrow<'static, i64>),
    W(BorrowMut<'static, i64>),
}

fn make(variant: &str) -> Reference<i64> {
    match variant {
        "Ptr" => unsafe { Reference::from_ptr(Box::leak(Box::new(0i64)) as *mut i64) },
        "RcRefCell" => rc_ref_cell_reference(0i64),
        "PtrRwLock" => unsafe { Reference::from_ptr_rw_lock(Box::leak(Box::new(RwLock::new(0i64))) as *const RwLock<i64>) },
        "PtrMutex" => unsafe { Reference::from_ptr_mutex(Box::leak(Box::new(Mutex::new(0i64))) as *const Mutex<i64>) },
        "ArcRwLock" => arc_rw_lock_reference(0i64),
        "ArcMutex" => arc_mutex_reference(0i64),
        v => {
            eprintln!("unknown variant {v}");
            std::process::exit(2)
        }
    }
}

/// runs one behaviour; returns the first disagreement
fn run(beh: &Value) -> Option<(usize, String, Value, Value)> {
    let variant = s(beh, "variant").to_string();
    let root: &'static Reference<i64> = Box::leak(Box::new(make(&variant)));
    let mut guards: Vec<Option<G>> = vec![];
    for (idx, st) in beh["steps"].as_array().unwrap().iter().enumerate() {
        let a = &st["a"];
        match s(a, "op") {
            "acquire" => {
                // every borrow goes through its own clone of the handle: the discipline belongs to the object, not to the handle
                let h: &'static Reference<i64> = Box::leak(Box::new(root.clone()));
                let read = s(a, "kind") == "r";
                let got = catch(|| if read { G::R(h.borrow()) } else { G::W(h.borrow_mut()) });
                let exp = s(a, "outcome");
                match (got, exp) {
                    (Ok(g), "ok") => guards.push(Some(g)),
                    (Err(_), "panic") => {}
                    (Ok(_), _) => return Some((idx, format!("{variant}: a conflicting borrow was granted"), json!(exp), json!("ok"))),
                    (Err(m), _) => return Some((idx, format!("{variant}: an available borrow panicked"), json!(exp), json!(m))),
                }
            }
            "release" => {
                let gi = i(a, "g") as usize - 1;
                guards[gi] = None;
            }
            "write" => {
                let gi = i(a, "g") as usize - 1;
                if let Some(G::W(w)) = guards[gi].as_mut() {
                    **w = i(a, "v");
                }
            }
            _ => {}
        }
        // every held guard shows the value last written
        let v = st["value"].as_i64().unwrap();
        for (k, g) in guards.iter().enumerate() {
            let seen = match g {
                Some(G::R(r)) => Some(**r),
                Some(G::W(w)) => Some(**w),
                None => None,
            };
            if let Some(x) = seen {
                if x != v {
                    return Some((idx, format!("{variant}: guard {} shows a stale value", k + 1), json!(v), json!(x)));
                }
            }
        }
    }
    None
}

fn main() {
    silence_panics();
    let args: Vec<String> = std::env::args().collect();
    if args.len() < 3 || args[1] != "replay" {
        eprintln!("usage: guards replay <behaviours.ndjson>");
        std::process::exit(2);
    }
    let mut n = 0u64;
    let mut dev = 0u64;
    let mut two_readers = 0u64;
    let mut blocked = 0u64;
    for (ln, l) in read_lines(&args[2]).iter().enumerate() {
        let beh: Value = serde_json::from_str(l).unwrap_or_else(|e| {
            eprintln!("bad line {ln}: {e}");
            std::process::exit(2)
        });
        n += 1;
        if beh["steps"].as_array().unwrap().iter().any(|st| st["guards"].as_array().unwrap().iter().filter(|g| *g == "r").count() >= 2) {
            two_readers += 1;
        }
        let (tx, rx) = mpsc::channel();
        let b2 = beh.clone();
        std::thread::spawn(move || {
            let _ = tx.send(run(&b2));
        });
        match rx.recv_timeout(Duration::from_secs(3)) {
            Ok(None) => {}
            Ok(Some((step, what, exp, got))) => {
                dev += 1;
                if dev <= 20 {
                    println!("DEVIATION {}", json!({"line": ln, "variant": beh["variant"], "step": step, "what": what, "exp": exp, "got": got}));
                }
            }
            Err(_) => {
                dev += 1;
                if dev <= 20 {
                    println!("DEVIATION {}", json!({"line": ln, "variant": beh["variant"], "step": -1,
                        "what": "the behaviour did not finish within 3 s: a borrow the specification calls available blocked", "exp": "ok", "got": "blocked"}));
                }
                blocked += 1;
                if blocked >= 4 {
                    break; // every blocked behaviour leaks a thread and costs 3 s
                }
            }
        }
    }
    println!("SUMMARY {}", json!({"behaviours": n, "deviations": dev, "with_two_readers": two_readers}));
}
