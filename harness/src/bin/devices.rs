//! Replay of behaviours emitted by TLC from spec/Devices.tla against real rrtk terminals and devices.
//!
//! usage: devices replay <behaviours.ndjson> <maps.json> [--only <line>]
//!
//! `maps.json` is a list of concretisations {"kind": "affine", "base": i64, "step": i64, "scale_pow2": k}:
//! rank r of the specification becomes the timestamp base + r*step (any strictly monotone map is
//! sound because the device code only compares timestamps).
use rrtk::devices::*;
use rrtk::*;
use rrtk_conform::*;
use serde_json::{json, Value};
use std::cell::RefCell;

type Term = &'static RefCell<Terminal<'static, E>>;

enum Device {
    Invert(&'static mut Invert<'static, E>),
    Gear(&'static mut GearTrain<'static, E>),
    Diff(&'static mut Differential<'static, E>),
    Axle0(&'static mut Axle<'static, 0, E>),
    Axle1(&'static mut Axle<'static, 1, E>),
    Axle2(&'static mut Axle<'static, 2, E>),
    Axle3(&'static mut Axle<'static, 3, E>),
    Axle4(&'static mut Axle<'static, 4, E>),
    Axle5(&'static mut Axle<'static, 5, E>),
    Axle6(&'static mut Axle<'static, 6, E>),
    Axle7(&'static mut Axle<'static, 7, E>),
    Axle8(&'static mut Axle<'static, 8, E>),
}
impl Device {
    fn update(&mut self) -> NothingOrError<E> {
        match self {
            Device::Invert(d) => d.update(),
            Device::Gear(d) => d.update(),
            Device::Diff(d) => d.update(),
            Device::Axle0(d) => d.update(),
            Device::Axle1(d) => d.update(),
            Device::Axle2(d) => d.update(),
            Device::Axle3(d) => d.update(),
            Device::Axle4(d) => d.update(),
            Device::Axle5(d) => d.update(),
            Device::Axle6(d) => d.update(),
            Device::Axle7(d) => d.update(),
            Device::Axle8(d) => d.update(),
        }
    }
}
fn leak<T>(x: T) -> &'static mut T {
    Box::leak(Box::new(x))
}

#[derive(Clone, Copy)]
struct Map {
    base: i64,
    r0: i64,
    step: i64,
    scale_pow2: i32,
}
impl Map {
    fn time(&self, r: i64) -> Time {
        Time((self.base as i128 + (r - self.r0) as i128 * self.step as i128) as i64)      // (the offset alone may exceed i64 under the wide maps)
    }
    fn val(&self, v: &Value) -> f32 {
        (rat(v) * 2f64.powi(self.scale_pow2)) as f32
    }
    fn json(&self) -> Value {
        json!({"base": self.base, "r0": self.r0, "step": self.step, "scale_pow2": self.scale_pow2})
    }
}

static PROBE_BOUNDS: std::sync::atomic::AtomicBool = std::sync::atomic::AtomicBool::new(false);

struct World {
    terms: Vec<Term>, // index 0 unused
    devs: Vec<Device>,
    // family "follow": the scripted getters the device's own terminals follow (index = terminal)
    sget: Vec<Option<Scripted<Datum<State>>>>,
    cget: Vec<Option<Scripted<Datum<Command>>>>,
}

fn build(scen: &Value, m: &Map) -> Result<World, String> {
    let nt = i(scen, "nt") as usize;
    let mut terms: Vec<Option<Term>> = vec![None; nt + 1];
    let mut devs = Vec::new();
    for d in scen["devs"].as_array().unwrap() {
        let ts: Vec<usize> = d["terms"].as_array().unwrap().iter().map(|x| x.as_i64().unwrap() as usize).collect();
        let ty = s(d, "type");
        match ty {
            "invert" => {
                let dev = leak(Invert::<E>::new());
                terms[ts[0]] = Some(dev.get_terminal_1());
                terms[ts[1]] = Some(dev.get_terminal_2());
                devs.push(Device::Invert(dev));
            }
            "gear" => {
                let teeth: Vec<f32> = d["teeth"].as_array().unwrap().iter().map(|x| x.as_i64().unwrap() as f32).collect();
                let dev = match teeth.len() {
                    0 => leak(GearTrain::<E>::with_ratio_raw(rat(&d["ratio"]) as f32)),
                    2 => leak(GearTrain::<E>::new([teeth[0], teeth[1]])),
                    3 => leak(GearTrain::<E>::new([teeth[0], teeth[1], teeth[2]])),
                    4 => leak(GearTrain::<E>::new([teeth[0], teeth[1], teeth[2], teeth[3]])),
                    5 => leak(GearTrain::<E>::new([teeth[0], teeth[1], teeth[2], teeth[3], teeth[4]])),
                    6 => leak(GearTrain::<E>::new([teeth[0], teeth[1], teeth[2], teeth[3], teeth[4], teeth[5]])),
                    _ => return Err("unsupported tooth list".into()),
                };
                terms[ts[0]] = Some(dev.get_terminal_1());
                terms[ts[1]] = Some(dev.get_terminal_2());
                devs.push(Device::Gear(dev));
            }
            "diff" => {
                let mode = match s(d, "distrust") {
                    "side1" => DifferentialDistrust::Side1,
                    "side2" => DifferentialDistrust::Side2,
                    "sum" => DifferentialDistrust::Sum,
                    _ => DifferentialDistrust::Equal,
                };
                let dev = leak(Differential::<E>::with_distrust(mode));
                terms[ts[0]] = Some(dev.get_side_1());
                terms[ts[1]] = Some(dev.get_side_2());
                terms[ts[2]] = Some(dev.get_sum());
                devs.push(Device::Diff(dev));
            }
            "axle" => {
                macro_rules! ax {
                    ($n:literal, $v:ident) => {{
                        let dev = leak(Axle::<$n, E>::new());
                        // a safe accessor must not hand out a reference past the axle's terminals (C16's run asks for this probe)
                        for bad in if PROBE_BOUNDS.load(std::sync::atomic::Ordering::Relaxed) { vec![$n, $n + 1, $n + 7] } else { vec![] } {
                            if catch(|| dev.get_terminal(bad)).is_ok() {
                                return Err(format!("OUT-OF-RANGE Axle::<{}>::get_terminal({}) returned a reference instead of panicking", $n, bad));
                            }
                        }
                        for k in 0..$n {
                            terms[ts[k]] = Some(dev.get_terminal(k));
                        }
                        devs.push(Device::$v(dev));
                    }};
                }
                match ts.len() {
                    0 => ax!(0, Axle0),
                    1 => ax!(1, Axle1),
                    2 => ax!(2, Axle2),
                    3 => ax!(3, Axle3),
                    4 => ax!(4, Axle4),
                    5 => ax!(5, Axle5),
                    6 => ax!(6, Axle6),
                    7 => ax!(7, Axle7),
                    8 => ax!(8, Axle8),
                    _ => return Err("axle too large".into()),
                }
            }
            t => return Err(format!("unknown device type {t}")),
        }
    }
    let terms: Vec<Term> = terms
        .into_iter()
        .map(|t| match t {
            Some(t) => t,
            None => &*leak(Terminal::<E>::new()),
        })
        .collect();
    let n = terms.len();
    let w = World { terms, devs, sget: (0..n).map(|_| None).collect(), cget: (0..n).map(|_| None).collect() };
    let _ = m;
    Ok(w)
}

fn set_state(t: Term, d: Datum<State>) -> NothingOrError<E> {
    t.borrow_mut().set(d)
}
fn set_cmd(t: Term, d: Datum<Command>) -> NothingOrError<E> {
    t.borrow_mut().set(d)
}
fn pdk(k: i64) -> PositionDerivative {
    match k {
        0 => PositionDerivative::Position,
        1 => PositionDerivative::Velocity,
        _ => PositionDerivative::Acceleration,
    }
}
fn kind_of(c: Command) -> i64 {
    match PositionDerivative::from(c) {
        PositionDerivative::Position => 0,
        PositionDerivative::Velocity => 1,
        PositionDerivative::Acceleration => 2,
    }
}

/// Compare an optional state datum with the specification's Option([t, v]).
fn cmp_state(exp: &Value, got: &Option<Datum<State>>, m: &Map, mag: f64) -> bool {
    let e = exp.as_array().unwrap();
    match (e.len(), got) {
        (0, None) => true,
        (1, Some(d)) => {
            let e = &e[0];
            d.time == m.time(i(e, "t"))
                && close(d.value.position, rat(&e["v"][0]) * 2f64.powi(m.scale_pow2), mag)
                && close(d.value.velocity, rat(&e["v"][1]) * 2f64.powi(m.scale_pow2), mag)
                && close(d.value.acceleration, rat(&e["v"][2]) * 2f64.powi(m.scale_pow2), mag)
        }
        // timestamps-only mode (C03, mag = 1e300): presence is the business of the terminal / device properties
        _ => mag >= 1e299,
    }
}
fn cmp_cmd(exp: &Value, got: &Option<Datum<Command>>, m: &Map, mag: f64) -> bool {
    let e = exp.as_array().unwrap();
    match (e.len(), got) {
        (0, None) => true,
        (1, Some(d)) => {
            let e = &e[0];
            d.time == m.time(i(e, "t")) && (mag >= 1e299 || kind_of(d.value) == i(e, "k")) && close(f32::from(d.value), rat(&e["v"]) * 2f64.powi(m.scale_pow2), mag)
        }
        _ => mag >= 1e299,
    }
}
fn js_state(g: &Option<Datum<State>>) -> Value {
    match g {
        None => json!(null),
        Some(d) => json!({"t_ns": d.time.0, "v": [d.value.position, d.value.velocity, d.value.acceleration]}),
    }
}
fn js_cmd(g: &Option<Datum<Command>>) -> Value {
    match g {
        None => json!(null),
        Some(d) => json!({"t_ns": d.time.0, "k": kind_of(d.value), "v": f32::from(d.value)}),
    }
}

fn magnitude(beh: &Value) -> f64 {
    // largest |value| predicted anywhere in the behaviour
    fn walk(v: &Value, m: &mut f64) {
        match v {
            Value::Array(a) => {
                if a.len() == 2 && a[0].is_i64() && a[1].is_i64() {
                    let x = (a[0].as_i64().unwrap() as f64 / a[1].as_i64().unwrap() as f64).abs();
                    if x > *m {
                        *m = x;
                    }
                } else {
                    for x in a {
                        walk(x, m);
                    }
                }
            }
            Value::Object(o) => {
                for (k, x) in o {
                    if k == "v" || k == "st" || k == "cmd" || k == "ost" || k == "ocmd" || k == "obs" || k == "steps" {
                        walk(x, m);
                    }
                }
            }
            _ => {}
        }
    }
    let mut m = 0.0;
    walk(&beh["steps"], &mut m);
    m
}

fn replay(beh: &Value, line: usize, m: &Map, rep: &mut Report, observe: &str) {
    // "times": presence and timestamps of everything, values ignored (C03)
    // "ret": only what following is about (C15): return values, and the own slots after an update that a followed getter's error aborted
    let ret_only = observe == "ret";
    let (ob_state, ob_cmd, ob_data) = (observe != "cmd" && !ret_only, observe != "state" && !ret_only, observe == "all");     // (the combined read carries the STATE's time by C09's own clause, not the latest one: not a C03 matter)
    let scen = &beh["scen"];
    let steps = beh["steps"].as_array().unwrap();
    let mag = if observe == "times" { 1e300 } else { magnitude(beh) * 2f64.powi(m.scale_pow2) };
    let bad = |rep: &mut Report, step: usize, what: &str, exp: Value, got: Value| {
        rep.mismatch(json!({"line": line, "family": beh["family"], "map": m.json(), "step": step, "what": what, "exp": exp, "got": got}));
    };
    let mut w = match catch(|| build(scen, m)) {
        Ok(Ok(w)) => w,
        Ok(Err(e)) if e.starts_with("OUT-OF-RANGE") => {
            bad(rep, 0, "index out of range in a safe accessor", json!("panic"), json!(e));
            return;
        }
        Ok(Err(e)) => {
            eprintln!("cannot build scenario: {e}");
            std::process::exit(2)
        }
        Err(p) => {
            bad(rep, 0, "constructing the devices panicked", json!("no panic"), json!(p));
            return;
        }
    };
    let nt = i(scen, "nt") as usize;
    // return values belong to the following property (C15): the state-only and command-only observers (C08, C13) leave out the
    // behaviours of the follow family in which a followed getter reports an error
    let rets = observe == "all" || ret_only;
    if s(beh, "family") == "follow" && !rets && steps.iter().any(|st| s(&st["a"], "op") == "getter" && st["a"]["o"]["c"] == "err") {
        rep.count("skipped_error_behaviours", 1);
        return;
    }
    for (idx, st) in steps.iter().enumerate() {
        let a = &st["a"];
        let r: Result<NothingOrError<E>, String> = match s(a, "op") {
            "init" => {
                // family "follow": every own terminal of the device follows a getter of state data and a getter of command data
                if s(beh, "family") == "follow" {
                    let k = scen["devs"][0]["terms"].as_array().unwrap().len();
                    for x in 1..=k {
                        let sg = Scripted::<Datum<State>>::new();
                        let cg = Scripted::<Datum<Command>>::new();
                        let sref: Reference<dyn Getter<Datum<State>, E>> = to_dyn!(Getter<Datum<State>, E>, sg.getter.clone());
                        let cref: Reference<dyn Getter<Datum<Command>, E>> = to_dyn!(Getter<Datum<Command>, E>, cg.getter.clone());
                        <Terminal<E> as Settable<Datum<State>, E>>::follow(&mut w.terms[x].borrow_mut(), sref);
                        <Terminal<E> as Settable<Datum<Command>, E>>::follow(&mut w.terms[x].borrow_mut(), cref);
                        w.sget[x] = Some(sg);
                        w.cget[x] = Some(cg);
                    }
                }
                // initial own data of the match families
                let obs = st["obs"].as_array().unwrap();
                // initial links (fresh terminals: a plain connect of each pair)
                for x in 1..=nt {
                    let y = obs[x - 1]["link"].as_i64().unwrap() as usize;
                    if y > x {
                        connect(w.terms[x], w.terms[y]);
                    }
                }
                for x in 1..=nt {
                    let o = &obs[x - 1];
                    if let Some(e) = o["ost"].as_array().unwrap().first() {
                        let _ = set_state(w.terms[x], Datum::new(m.time(i(e, "t")), State::new_raw(m.val(&e["v"][0]), m.val(&e["v"][1]), m.val(&e["v"][2]))));
                    }
                    if let Some(e) = o["ocmd"].as_array().unwrap().first() {
                        let _ = set_cmd(w.terms[x], Datum::new(m.time(i(e, "t")), Command::new(pdk(i(e, "k")), m.val(&e["v"]))));
                    }
                }
                Ok(Ok(()))
            }
            "setstate" => {
                let x = i(a, "x") as usize;
                let d = Datum::new(m.time(i(a, "t")), State::new_raw(m.val(&a["v"][0]), m.val(&a["v"][1]), m.val(&a["v"][2])));
                catch(|| set_state(w.terms[x], d))
            }
            "setcmd" => {
                let x = i(a, "x") as usize;
                let d = Datum::new(m.time(i(a, "t")), Command::new(pdk(i(a, "k")), m.val(&a["v"])));
                catch(|| set_cmd(w.terms[x], d))
            }
            "update" => {
                let j = i(a, "d") as usize - 1;
                let dev = &mut w.devs[j];
                catch(|| dev.update())
            }
            "getter" => {
                // what a followed getter returns from now on; the OUTER datum's timestamp is irrelevant to following (only its value, the
                // datum to be set, is forwarded), so it gets a recognisable wrong time
                let x = i(a, "x") as usize;
                let o = &a["o"];
                let outer = Time(424_242 - idx as i64);
                if s(a, "which") == "s" {
                    w.sget[x].as_ref().unwrap().set(match s(o, "c") {
                        "err" => Err(mk_err(i(o, "e"))),
                        "none" => Ok(None),
                        _ => Ok(Some(Datum::new(outer, Datum::new(m.time(i(o, "t")), State::new_raw(m.val(&o["v"][0]), m.val(&o["v"][1]), m.val(&o["v"][2])))))),
                    });
                } else {
                    w.cget[x].as_ref().unwrap().set(match s(o, "c") {
                        "err" => Err(mk_err(i(o, "e"))),
                        "none" => Ok(None),
                        _ => Ok(Some(Datum::new(outer, Datum::new(m.time(i(o, "t")), Command::new(pdk(i(&o["v"], "k")), m.val(&o["v"]["v"])))))),
                    });
                }
                Ok(Ok(()))
            }
            "connect" => {
                let (x, y) = (i(a, "i") as usize, i(a, "j") as usize);
                catch(|| {
                    connect(w.terms[x], w.terms[y]);
                    Ok(())
                })
            }
            "disconnect" => {
                let x = i(a, "i") as usize;
                catch(|| {
                    w.terms[x].borrow_mut().disconnect();
                    Ok(())
                })
            }
            o => {
                eprintln!("unknown op {o}");
                std::process::exit(2)
            }
        };
        match (&r, a.get("ret")) {
            // an update whose return value the specification predicts (an error of a followed getter is propagated)
            (_, Some(exp)) if rets && (exp["c"] == "err" || s(beh, "family") == "follow") => {
                if !ret_matches(exp, &r) {
                    bad(rep, idx, "return value of the device update (a followed getter's error is propagated, otherwise Ok)", exp.clone(), ret_json(&r));
                    return;
                }
            }
            (Ok(Ok(())), _) => {}
            _ => {
                bad(rep, idx, "the operation must return Ok and must not panic", a.clone(), ret_json(&r));
                return;
            }
        }
        // observe every terminal
        let obs = st["obs"].as_array().unwrap();
        for x in 1..=nt {
            let o = &obs[x - 1];
            let t = w.terms[x];
            let got = catch(|| {
                let tb = t.borrow();
                let gs: Output<State, E> = tb.get();
                let gc: Output<Command, E> = tb.get();
                let gd: Output<TerminalData, E> = tb.get();
                let os: Option<Datum<State>> = tb.get_last_request();
                let oc: Option<Datum<Command>> = tb.get_last_request();
                (gs, gc, gd, os, oc)
            });
            let (gs, gc, gd, os, oc) = match got {
                Ok(g) => g,
                Err(p) => {
                    bad(rep, idx, &format!("reading terminal {x} panicked"), o.clone(), json!(p));
                    return;
                }
            };
            let (gs, gc, gd) = match (gs, gc, gd) {
                (Ok(a), Ok(b), Ok(c)) => (a, b, c),
                _ => {
                    bad(rep, idx, &format!("a read of terminal {x} returned an error"), o.clone(), json!("Err"));
                    return;
                }
            };
            if ob_state && !cmp_state(&o["st"], &gs, m, mag) {
                bad(rep, idx, &format!("state read of terminal {x}"), o["st"].clone(), js_state(&gs));
                return;
            }
            if ob_cmd && !cmp_cmd(&o["cmd"], &gc, m, mag) {
                bad(rep, idx, &format!("command read of terminal {x}"), o["cmd"].clone(), js_cmd(&gc));
                return;
            }
            let aborted = ret_only && s(a, "op") == "update" && a["ret"]["c"] == "err";
            // after a successful update the own slots show what following stored only where the device's computation does not write:
            // a differential never touches commands and writes the state of its distrusted branch only
            let (pulled_state, pulled_cmd) = if ret_only && s(a, "op") == "update" && !aborted && s(&scen["devs"][0], "type") == "diff" && x <= 3 {
                let written = match s(&scen["devs"][0], "distrust") { "side1" => vec![1], "side2" => vec![2], "sum" => vec![3], _ => vec![1, 2, 3] };
                (!written.contains(&x), true)
            } else {
                (false, false)
            };
            if (ob_state || aborted || pulled_state) && !cmp_state(&o["ost"], &os, m, mag) {
                bad(rep, idx, &format!("own state (last request) of terminal {x}"), o["ost"].clone(), js_state(&os));
                return;
            }
            if (ob_cmd || aborted || pulled_cmd) && !cmp_cmd(&o["ocmd"], &oc, m, mag) {
                bad(rep, idx, &format!("own command (last request) of terminal {x}"), o["ocmd"].clone(), js_cmd(&oc));
                return;
            }
            // combined read
            let ed = o["data"].as_array().unwrap();
            let ok = match (ed.len(), &gd) {
                (0, None) => true,
                (1, Some(d)) => {
                    let e = &ed[0];
                    let tt = m.time(i(e, "t"));
                    // presence and values of the two parts; their own timestamps are not part of TerminalData
                    let est = e["st"].as_array().unwrap().first().map(|x| json!([{"t": e["t"], "v": x["v"]}])).unwrap_or(json!([]));
                    let ecm = e["cmd"].as_array().unwrap().first().map(|x| json!([{"t": e["t"], "k": x["k"], "v": x["v"]}])).unwrap_or(json!([]));
                    d.time == tt
                        && d.value.time == tt
                        && cmp_state(&est, &d.value.state.map(|v| Datum::new(tt, v)), m, mag)
                        && cmp_cmd(&ecm, &d.value.command.map(|v| Datum::new(tt, v)), m, mag)
                }
                _ => mag >= 1e299,      // timestamps-only mode: presence is not C03's business
            };
            if ob_data && !ok {
                let g = gd.map(|d| json!({"t_ns": d.time.0, "inner_t_ns": d.value.time.0, "has_cmd": d.value.command.is_some(), "has_state": d.value.state.is_some(),
                    "cmd": d.value.command.map(|c| json!([kind_of(c), f32::from(c)])), "state": d.value.state.map(|s| json!([s.position, s.velocity, s.acceleration]))}));
                bad(rep, idx, &format!("combined (TerminalData) read of terminal {x}"), o["data"].clone(), json!(g));
                return;
            }
        }
        rep.count("steps", 1);
    }
    rep.count("replays", 1);
}

fn nontrivial(beh: &Value) -> bool {
    let steps = beh["steps"].as_array().unwrap();
    match s(beh, "family") {
        "single" | "chain" => {
            // an update that happens after at least one write
            let mut wrote = false;
            for st in steps {
                match s(&st["a"], "op") {
                    "setstate" | "setcmd" => wrote = true,
                    "update" if wrote => return true,
                    _ => {}
                }
            }
            false
        }
        _ => {
            // a connect on a terminal that is already linked, or a disconnect of a linked one
            for (k, st) in steps.iter().enumerate() {
                if k == 0 {
                    continue;
                }
                let prev = steps[k - 1]["obs"].as_array().unwrap();
                let a = &st["a"];
                let linked = |x: i64| prev[(x - 1) as usize]["link"].as_i64().unwrap_or(0) != 0;
                match s(a, "op") {
                    "connect" if linked(i(a, "i")) || linked(i(a, "j")) => return true,
                    "disconnect" if linked(i(a, "i")) => return true,
                    _ => {}
                }
            }
            false
        }
    }
}


// ------------------------------------------------------------------------------------------------
// recorder: random operations on 6 bare terminals with arbitrary values, logged for spec/DevicesTrace.tla
// ------------------------------------------------------------------------------------------------
fn record(path: &str, seed: u64, runs: usize) {
    use std::io::Write;
    let mut rng = Rng::new(seed);
    let mut f = std::io::BufWriter::new(std::fs::File::create(path).expect("create trace"));
    const NT: usize = 6;
    for _ in 0..runs {
        writeln!(f, "{}", json!({"k": "reset"})).unwrap();
        // a random strictly monotone map rank -> i64 (extremes included now and then)
        let nranks = 400usize;
        let mut ts: Vec<i64> = (0..nranks).map(|_| rng.next() as i64).collect();
        if rng.below(3) == 0 {
            ts.push(i64::MIN);
            ts.push(i64::MAX);
        }
        ts.sort();
        ts.dedup();
        let terms: Vec<Term> = (0..NT).map(|_| &*leak(Terminal::<E>::new())).collect();
        let rank_of = |t: Time| -> i64 { ts.binary_search(&t.0).map(|p| p as i64 + 1).unwrap_or(-1) };
        let mut used_cmd_ranks = std::collections::HashSet::new();
        for _ in 0..(50 + rng.below(150)) {
            let i = rng.below(NT as u64) as usize;
            let mut j = rng.below(NT as u64) as usize;
            if j == i {
                j = (i + 1) % NT;
            }
            let roll = rng.below(10);
            let mut ev = json!({"k": "op", "i": i + 1, "j": j + 1, "t": 0, "keys": [0, 0, 0], "kind": 0, "key": 0});
            let res: Result<(), String> = if roll < 3 {
                ev["op"] = json!("connect");
                catch(|| connect(terms[i], terms[j]))
            } else if roll < 4 {
                ev["op"] = json!("disconnect");
                catch(|| terms[i].borrow_mut().disconnect())
            } else if roll < 7 {
                let r = rng.below(ts.len() as u64) as usize;
                // one write in four draws every component from a small palette (the smallest subnormals with odd mantissas among them), so
                // that linked terminals often hold EQUAL components: the mean of x and x is x exactly
                let pal = [f32::from_bits(1), f32::from_bits(3), f32::from_bits(5), -f32::from_bits(7), 0.3f32, -2.5e10f32];
                let comp = |r: &mut Rng, palette: bool| if palette { pal[r.below(pal.len() as u64) as usize] } else { r.float(-20, 20) };
                let palette = rng.below(4) == 0;
                let st = State::new_raw(comp(&mut rng, palette), comp(&mut rng, palette), comp(&mut rng, palette));
                ev["op"] = json!("setstate");
                ev["t"] = json!(r as i64 + 1);
                ev["keys"] = json!([f32_key(st.position), f32_key(st.velocity), f32_key(st.acceleration)]);
                catch(|| {
                    let _ = set_state(terms[i], Datum::new(Time(ts[r]), st));
                })
            } else {
                // distinct timestamps for commands (with equal timestamps neither command is newer)
                let mut r = rng.below(ts.len() as u64) as usize;
                while used_cmd_ranks.contains(&r) {
                    r = (r + 1) % ts.len();
                }
                used_cmd_ranks.insert(r);
                let k = rng.below(3) as i64;
                let v = rng.float(-20, 20);
                ev["op"] = json!("setcmd");
                ev["t"] = json!(r as i64 + 1);
                ev["kind"] = json!(k);
                ev["key"] = json!(f32_key(v));
                catch(|| {
                    let _ = set_cmd(terms[i], Datum::new(Time(ts[r]), Command::new(pdk(k), v)));
                })
            };
            if let Err(p) = res {
                writeln!(f, "{}", json!({"k": "panic", "during": ev["op"], "msg": p})).unwrap();
                break;
            }
            let mut obs = vec![];
            for t in &terms {
                let tb = t.borrow();
                let gs: Output<State, E> = tb.get();
                let gc: Output<Command, E> = tb.get();
                let gd: Output<TerminalData, E> = tb.get();
                let st = match gs { Ok(Some(d)) => json!([{"t": rank_of(d.time), "keys": [f32_key(d.value.position), f32_key(d.value.velocity), f32_key(d.value.acceleration)]}]), _ => json!([]) };
                let cm = match gc { Ok(Some(d)) => json!([{"t": rank_of(d.time), "kind": kind_of(d.value), "key": f32_key(f32::from(d.value))}]), _ => json!([]) };
                let da = match gd { Ok(Some(d)) => json!([{"t": rank_of(d.time), "hasState": d.value.state.is_some(), "hasCmd": d.value.command.is_some()}]), _ => json!([]) };
                obs.push(json!({"st": st, "cmd": cm, "data": da}));
            }
            ev["obs"] = json!(obs);
            writeln!(f, "{}", ev).unwrap();
        }
    }
    f.flush().unwrap();
}

fn main() {
    silence_panics();
    let args: Vec<String> = std::env::args().collect();
    if args.len() >= 5 && args[1] == "record" {
        record(&args[2], args[3].parse().unwrap_or(1), args[4].parse().unwrap_or(20));
        println!("SUMMARY {}", json!({"recorded": true}));
        return;
    }
    if args.len() < 4 || args[1] != "replay" {
        eprintln!("usage: devices replay <behaviours.ndjson> <maps.json> [--only <line>]");
        std::process::exit(2);
    }
    let lines = read_lines(&args[2]);
    let maps: Vec<Map> = serde_json::from_str::<Value>(&std::fs::read_to_string(&args[3]).expect("maps"))
        .expect("maps json")
        .as_array()
        .unwrap()
        .iter()
        .map(|v| Map { base: i(v, "base"), r0: v["r0"].as_i64().unwrap_or(0), step: i(v, "step"), scale_pow2: i(v, "scale_pow2") as i32 })
        .collect();
    let only: Option<usize> = args.iter().position(|a| a == "--only").map(|p| args[p + 1].parse().unwrap());
    if args.iter().any(|a| a == "--probe-bounds") {
        PROBE_BOUNDS.store(true, std::sync::atomic::Ordering::Relaxed);
    }
    let observe: String = args.iter().position(|a| a == "--observe").map(|p| args[p + 1].clone()).unwrap_or("all".into());
    let mut rep = Report::new();
    let mut seen = std::collections::HashSet::new();
    for (ln, l) in lines.iter().enumerate() {
        if let Some(o) = only {
            if o != ln {
                continue;
            }
        }
        let beh: Value = serde_json::from_str(l).unwrap_or_else(|e| {
            eprintln!("bad behaviour line {ln}: {e}");
            std::process::exit(2)
        });
        rep.count("behaviours", 1);
        {
            use std::hash::{Hash, Hasher};
            let mut h = std::collections::hash_map::DefaultHasher::new();
            l.hash(&mut h);
            if seen.insert(h.finish()) {
                rep.count("distinct", 1);
                if nontrivial(&beh) {
                    rep.count("nontrivial", 1);
                }
            }
        }
        // a timestamp map is used for a behaviour only if every rank of the behaviour stays inside i64 under it (the wide map, whose
        // ranks are 2.5e18 ns apart so that two timestamps can differ by more than 2^63, only fits short behaviours)
        fn ranks(v: &Value, lo: &mut i64, hi: &mut i64) {
            match v {
                Value::Object(o) => {
                    for (k, x) in o {
                        if k == "t" {
                            if let Some(t) = x.as_i64() {
                                *lo = (*lo).min(t);
                                *hi = (*hi).max(t);
                            }
                        }
                        ranks(x, lo, hi);
                    }
                }
                Value::Array(a) => a.iter().for_each(|x| ranks(x, lo, hi)),
                _ => {}
            }
        }
        let (mut lo, mut hi) = (0i64, 0i64);
        ranks(&beh, &mut lo, &mut hi);
        for m in &maps {
            let fits = |r: i64| {
                let t = m.base as i128 + (r - m.r0) as i128 * m.step as i128;
                t >= i64::MIN as i128 && t <= i64::MAX as i128
            };
            if !(fits(lo) && fits(hi)) {
                rep.count("maps_skipped_out_of_range", 1);
                continue;
            }
            replay(&beh, ln, m, &mut rep, &observe);
        }
    }
    rep.finish();
}
