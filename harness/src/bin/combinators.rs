//! Replay of the cases emitted by TLC from spec/Combinators.tla against the real stateless streams.
//!
//! usage: combinators replay <cases.ndjson> <seed> [--only <line>]
//!
//! Every case is executed under several monotone timestamp maps and several random bindings of the
//! input identifiers to finite f32 values; the predicted value term is evaluated with plain f32
//! operators and compared bit for bit; get() is called twice (reading must not change anything).
use rrtk::streams::converters::*;
use rrtk::streams::flow::*;
use rrtk::streams::logic::*;
use rrtk::streams::math::*;
use rrtk::streams::*;
use rrtk::*;
use rrtk_conform::*;
use serde_json::{json, Value};
use std::cell::RefCell;
use std::rc::Rc;

#[derive(Clone, Copy)]
struct TMap {
    base: i64,
    step: i64,
}
impl TMap {
    /// rank 1 maps to `base` itself, so that a map can start exactly at i64::MIN
    fn t(&self, r: i64) -> Time {
        Time(self.base + (r - 1) * self.step)
    }
}

fn num_outcome(o: &Value, vals: &[f32], m: &TMap) -> Output<f32, E> {
    match s(o, "c") {
        "err" => Err(mk_err(i(o, "e"))),
        "none" => Ok(None),
        _ => Ok(Some(Datum::new(m.t(i(o, "t")), eval(&o["v"], vals)))),
    }
}
fn bool_outcome(o: &Value, m: &TMap) -> Output<bool, E> {
    match s(o, "c") {
        "err" => Err(mk_err(i(o, "e"))),
        "none" => Ok(None),
        _ => Ok(Some(Datum::new(m.t(i(o, "t")), o["v"].as_bool().unwrap()))),
    }
}
fn clock_outcome(o: &Value, m: &TMap) -> TimeOutput<E> {
    match s(o, "c") {
        "err" => Err(mk_err(i(o, "e"))),
        _ => Ok(m.t(i(o, "t"))),
    }
}
const DEFAULT_IDX: usize = 9;
/// plain-f32 evaluation of a predicted value term, independent of rrtk
fn eval(term: &Value, vals: &[f32]) -> f32 {
    let args: Vec<usize> = term["args"].as_array().unwrap().iter().map(|x| x.as_i64().unwrap() as usize).collect();
    match s(term, "op") {
        "id" => vals[args[0]],
        "add" => {
            let mut v = vals[args[0]];
            for a in &args[1..] {
                v += vals[*a];
            }
            v
        }
        "mul" => {
            let mut v = vals[args[0]];
            for a in &args[1..] {
                v *= vals[*a];
            }
            v
        }
        "sub" => vals[args[0]] - vals[args[1]],
        "div" => vals[args[0]] / vals[args[1]],
        "pow" => config_powf(vals[args[0]], vals[args[1]]),
        "default" | "const" => vals[DEFAULT_IDX],
        o => panic!("unknown op {o}"),
    }
}
fn dynf(c: &Scripted<f32>) -> Reference<dyn Getter<f32, E>> {
    Reference::from_rc_ref_cell(Rc::new(RefCell::new(CellGetter { cell: c.cell.clone(), reads: c.reads.clone() })) as Rc<RefCell<dyn Getter<f32, E>>>)
}

enum Got {
    Num(Output<f32, E>),
    Bool(Output<bool, E>),
}

fn run_case(cs: &Value, vals: &[f32], m: &TMap) -> Result<(Got, Got), String> {
    let comb = s(cs, "comb");
    let ins: Vec<Scripted<f32>> = (0..8).map(|_| Scripted::<f32>::new()).collect();
    if let Some(a) = cs["ins"].as_array() {
        for (k, o) in a.iter().enumerate() {
            ins[k].set(num_outcome(o, vals, m));
        }
    }
    let bins: Vec<Scripted<bool>> = (0..2).map(|_| Scripted::<bool>::new()).collect();
    if let Some(a) = cs["bins"].as_array() {
        for (k, o) in a.iter().enumerate() {
            bins[k].set(bool_outcome(o, m));
        }
    }
    let cond = Scripted::<bool>::new();
    if cs.get("cond").is_some() {
        cond.set(bool_outcome(&cs["cond"], m));
    }
    let clock = ScriptedClock::new();
    if cs.get("clock").is_some() {
        clock.set(clock_outcome(&cs["clock"], m));
    }
    let n = cs["ins"].as_array().map(|a| a.len()).unwrap_or(0);
    macro_rules! twice {
        ($g:expr, $wrap:path) => {{
            let g = $g;
            catch(|| ($wrap(g.get()), $wrap(g.get())))
        }};
    }
    macro_rules! nary {
        ($ty:ident, $n:literal) => {{
            let arr: [Reference<dyn Getter<f32, E>>; $n] = core::array::from_fn(|k| dynf(&ins[k]));
            twice!($ty::<f32, $n, E>::new(arr), Got::Num)
        }};
    }
    macro_rules! nary_all {
        ($ty:ident) => {
            match n {
                1 => nary!($ty, 1),
                2 => nary!($ty, 2),
                3 => nary!($ty, 3),
                4 => nary!($ty, 4),
                5 => nary!($ty, 5),
                6 => nary!($ty, 6),
                7 => nary!($ty, 7),
                8 => nary!($ty, 8),
                _ => panic!("arity"),
            }
        };
    }
    match comb {
        "SumN" => nary_all!(SumStream),
        "ProductN" => nary_all!(ProductStream),
        "Latest" => nary_all!(Latest),
        "Sum2" => twice!(Sum2::new(ins[0].getter.clone(), ins[1].getter.clone()), Got::Num),
        "Product2" => twice!(Product2::new(ins[0].getter.clone(), ins[1].getter.clone()), Got::Num),
        "Difference" => twice!(DifferenceStream::new(ins[0].getter.clone(), ins[1].getter.clone()), Got::Num),
        "Quotient" => twice!(QuotientStream::new(ins[0].getter.clone(), ins[1].getter.clone()), Got::Num),
        "Exponent" => twice!(ExponentStream::new(ins[0].getter.clone(), ins[1].getter.clone()), Got::Num),
        "Expirer" => twice!(Expirer::new(ins[0].getter.clone(), clock.getter.clone(),
                                        if EXPIRER_NEVER.load(std::sync::atomic::Ordering::Relaxed) { Time(i64::MAX) } else { Time(i(cs, "limit") * m.step) }), Got::Num),
        "If" => twice!(IfStream::new(cond.getter.clone(), ins[0].getter.clone()), Got::Num),
        "IfElse" => twice!(IfElseStream::new(cond.getter.clone(), ins[0].getter.clone(), ins[1].getter.clone()), Got::Num),
        "NoneToError" => twice!(NoneToError::new(ins[0].getter.clone()), Got::Num),
        "NoneToValue" => twice!(NoneToValue::new(ins[0].getter.clone(), clock.getter.clone(), vals[DEFAULT_IDX]), Got::Num),
        "And" => twice!(AndStream::new(bins[0].getter.clone(), bins[1].getter.clone()), Got::Bool),
        "Or" => twice!(OrStream::new(bins[0].getter.clone(), bins[1].getter.clone()), Got::Bool),
        "Not" => twice!(NotStream::new(bins[0].getter.clone()), Got::Bool),
        "NoneGetter" => catch(|| {
            let g = NoneGetter::new();
            (Got::Num(Getter::<f32, E>::get(&g)), Got::Num(Getter::<f32, E>::get(&g)))
        }),
        "ConstantGetter" => twice!(ConstantGetter::new(clock.getter.clone(), vals[DEFAULT_IDX]), Got::Num),
        c => {
            eprintln!("unknown combinator {c}");
            std::process::exit(2)
        }
    }
}

/// replay the expirer with the largest possible limit ("never expire"): whatever is not expired under the case's limit is not expired then
static EXPIRER_NEVER: std::sync::atomic::AtomicBool = std::sync::atomic::AtomicBool::new(false);
static TIMES_ONLY: std::sync::atomic::AtomicBool = std::sync::atomic::AtomicBool::new(false);
/// the case under replay SELECTS one of its inputs (newest-of): there C03 also demands that the result IS one of the candidates
static SELECTING: std::sync::atomic::AtomicBool = std::sync::atomic::AtomicBool::new(false);
fn tolerant() -> bool {
    TIMES_ONLY.load(std::sync::atomic::Ordering::Relaxed) && !SELECTING.load(std::sync::atomic::Ordering::Relaxed)
}
/// how the power function of the build under test may differ from the host's f32::powf:
/// 0 = bit-exact (std build), n > 0 = within n ulps (libm), -1 = not compared (micromath approximation)
static POW_ULPS: std::sync::atomic::AtomicI64 = std::sync::atomic::AtomicI64::new(0);
fn same_f32(a: f32, b: f32) -> bool {
    TIMES_ONLY.load(std::sync::atomic::Ordering::Relaxed) || a.to_bits() == b.to_bits() || (a.is_nan() && b.is_nan())
}
fn got_json(g: &Got) -> Value {
    match g {
        Got::Num(Err(e)) | Got::Bool(Err(e)) => json!({"c":"err","e":err_code(e)}),
        Got::Num(Ok(None)) | Got::Bool(Ok(None)) => json!({"c":"none"}),
        Got::Num(Ok(Some(d))) => json!({"c":"some","t_ns":d.time.0,"v":d.value as f64,"bits":d.value.to_bits()}),
        Got::Bool(Ok(Some(d))) => json!({"c":"some","t_ns":d.time.0,"v":d.value}),
    }
}
fn matches(exp: &Value, g: &Got, vals: &[f32], m: &TMap) -> bool {
    match (s(exp, "c"), g) {
        ("err", Got::Num(Err(e))) | ("err", Got::Bool(Err(e))) => tolerant() || err_code(e) == i(exp, "e"),
        ("none", Got::Num(Ok(None))) | ("none", Got::Bool(Ok(None))) => true,
        ("some", Got::Num(Ok(Some(d)))) => {
            let pu = POW_ULPS.load(std::sync::atomic::Ordering::Relaxed);
            let e = eval(&exp["v"], vals);
            let val_ok = if exp["v"]["op"] == "pow" && pu != 0 {
                pu < 0 || (d.value.is_nan() && e.is_nan()) || (f32_key(d.value) - f32_key(e)).abs() <= pu
            } else {
                same_f32(d.value, e)
            };
            d.time == m.t(i(exp, "t")) && val_ok
        }
        ("some", Got::Bool(Ok(Some(d)))) => d.time == m.t(i(exp, "t")) && (TIMES_ONLY.load(std::sync::atomic::Ordering::Relaxed) || Some(d.value) == exp["v"].as_bool()),
        // timestamps-only mode (C03): whether a result is present, absent or an error is C02's business; only the timestamps of results
        // that are present on both sides are compared
        _ => tolerant(),
    }
}
fn got_eq(a: &Got, b: &Got) -> bool {
    got_json(a) == got_json(b) || matches!((a, b), (Got::Num(Ok(Some(x))), Got::Num(Ok(Some(y)))) if x.time == y.time && same_f32(x.value, y.value))
}

fn main() {
    silence_panics();
    let args: Vec<String> = std::env::args().collect();
    if args.len() < 4 || args[1] != "replay" {
        eprintln!("usage: combinators replay <cases.ndjson> <seed> [--only <line>]");
        std::process::exit(2);
    }
    let lines = read_lines(&args[2]);
    let seed: u64 = args[3].parse().unwrap_or(1);
    let only: Option<usize> = args.iter().position(|a| a == "--only").map(|p| args[p + 1].parse().unwrap());
    if let Some(p) = args.iter().position(|a| a == "--pow-ulps") {
        POW_ULPS.store(args[p + 1].parse().unwrap(), std::sync::atomic::Ordering::Relaxed);
    }
    if args.iter().any(|a| a == "--times-only") {
        TIMES_ONLY.store(true, std::sync::atomic::Ordering::Relaxed);
    }
    let maps = [
        TMap { base: 0, step: 1 },
        TMap { base: -2, step: 1 },
        TMap { base: 1 << 60, step: 1_000_000_000 },
        TMap { base: -(1 << 60), step: 7 },
    ];
    // the extreme maps are only sound for streams that never subtract timestamps
    let extreme = [TMap { base: i64::MIN, step: 1 }, TMap { base: i64::MAX - 8, step: 1 }];
    let mut rep = Report::new();
    let mut rng = Rng::new(seed);
    for (ln, l) in lines.iter().enumerate() {
        if let Some(o) = only {
            if o != ln {
                continue;
            }
        }
        let rec: Value = serde_json::from_str(l).unwrap_or_else(|e| {
            eprintln!("bad line {ln}: {e}");
            std::process::exit(2)
        });
        let cs = &rec["case"];
        let exp = &rec["out"];
        SELECTING.store(s(cs, "comb") == "Latest", std::sync::atomic::Ordering::Relaxed);
        rep.count("behaviours", 1);
        let mixed = cs["ins"].as_array().map(|a| a.iter().any(|o| o["c"] == "some") && a.iter().any(|o| o["c"] != "some")).unwrap_or(false)
            || cs.get("bins").is_some() || cs.get("cond").is_some() || cs.get("clock").is_some();
        if mixed {
            rep.count("nontrivial", 1);
        }
        let mut all: Vec<TMap> = maps.to_vec();
        if s(cs, "comb") != "Expirer" {
            all.extend_from_slice(&extreme);
        }
        for m in &all {
            let comb = s(cs, "comb");
            // round 2 (exponent stream): whole-number operands, negative bases included ((-3)^2 = 9 in every configuration);
            // round 2 (expirer, datum not expired): the same case with the limit i64::MAX
            let rounds = if comb == "Exponent" || (comb == "Expirer" && exp["c"] == "some") { 3 } else { 2 };
            for round in 0..rounds {
                // index 0 unused; 1..8 inputs; 9 default / constant value
                let mut vals = [0f32; 10];
                for v in vals.iter_mut() {
                    *v = if round == 0 { rng.float(-6, 10) } else if round == 1 || comb != "Exponent" { rng.float(-30, 30) } else { rng.range(-4, 4) as f32 };
                }
                EXPIRER_NEVER.store(round == 2 && comb == "Expirer", std::sync::atomic::Ordering::Relaxed);
                rep.count("replays", 1);
                let r = run_case(cs, &vals, m);
                let what = match &r {
                    Err(p) => Some(("get() panicked".to_string(), json!(p))),
                    Ok((a, b)) => {
                        if !matches(exp, a, &vals, m) {
                            Some(("outcome of get()".to_string(), got_json(a)))
                        } else if !got_eq(a, b) {
                            Some(("second get() differs from the first".to_string(), got_json(b)))
                        } else {
                            None
                        }
                    }
                };
                if let Some((w, g)) = what {
                    let mut e2 = exp.clone();
                    if exp["c"] == "some" && exp["v"].is_object() {
                        let x = eval(&exp["v"], &vals);
                        e2["value"] = json!(x as f64);
                        e2["bits"] = json!(x.to_bits());
                        e2["t_ns"] = json!(m.t(i(exp, "t")).0);
                    }
                    rep.mismatch(json!({"line": ln, "comb": cs["comb"], "map": {"base": m.base, "step": m.step}, "what": w, "exp": e2, "got": g,
                                        "vals": vals.iter().map(|x| *x as f64).collect::<Vec<_>>()}));
                    break;
                }
            }
        }
    }
    rep.finish();
}
