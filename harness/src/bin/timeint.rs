//! C18: Time / DimensionlessInteger.
//!   timeint replay <cases.ndjson> <seed>      cases emitted by TLC from spec/TimeInt.tla
//!   timeint record <out.ndjson> <seed> <n>    random conversions recorded for spec/TimeIntTrace.tla
use rrtk::*;
use rrtk_conform::*;
use serde_json::{json, Value};
use std::io::Write;

fn unit(u: &Value) -> Unit {
    Unit::new(u[0].as_i64().unwrap() as i8, u[1].as_i64().unwrap() as i8)
}
fn same(a: f32, b: f32) -> bool {
    a.to_bits() == b.to_bits() || (a.is_nan() && b.is_nan())
}

/// the real integer operation on (possibly huge) operands; returns the raw i64 of the result
fn int_op(c: &Value, a: i64, b: i64) -> i64 {
    let (lk, rk, form, assign) = (s(c, "lk"), s(c, "rk"), s(c, "form"), c["assign"].as_bool().unwrap());
    macro_rules! bin {
        ($x:expr, $y:expr) => {{
            let (x, y) = ($x, $y);
            if assign {
                let mut m = x;
                match form {
                    "add" => m += y,
                    "sub" => m -= y,
                    "mul" => m *= y,
                    _ => m /= y,
                }
                m.0
            } else {
                (match form {
                    "add" => x + y,
                    "sub" => x - y,
                    "mul" => x * y,
                    _ => x / y,
                })
                .0
            }
        }};
    }
    macro_rules! muldiv {
        ($x:expr, $y:expr) => {{
            let (x, y) = ($x, $y);
            if assign {
                let mut m = x;
                match form {
                    "mul" => m *= y,
                    _ => m /= y,
                }
                m.0
            } else {
                (match form {
                    "mul" => x * y,
                    _ => x / y,
                })
                .0
            }
        }};
    }
    match (lk, rk, form) {
        ("t", "t", "neg") => (-Time(a)).0,
        ("di", "di", "neg") => (-DimensionlessInteger(a)).0,
        ("t", "t", "from_i64") => {
            let t = Time::from(a);
            assert!(t == Time::new(a) && t == Time(a));
            i64::from(t)
        }
        ("di", "di", "from_i64") => {
            let d = DimensionlessInteger::from(a);
            assert!(d == DimensionlessInteger::new(a) && d == DimensionlessInteger(a));
            i64::from(d)
        }
        ("t", "t", "add") | ("t", "t", "sub") => {
            let (x, y) = (Time(a), Time(b));
            if assign {
                let mut m = x;
                if form == "add" { m += y } else { m -= y }
                m.0
            } else if form == "add" { (x + y).0 } else { (x - y).0 }
        }
        ("t", "di", _) => muldiv!(Time(a), DimensionlessInteger(b)),
        ("di", "di", _) => bin!(DimensionlessInteger(a), DimensionlessInteger(b)),
        ("di", "t", "mul") => (DimensionlessInteger(a) * Time(b)).0,
        x => {
            eprintln!("int form not implemented: {x:?}");
            std::process::exit(2)
        }
    }
}

fn int_case(c: &Value) -> Option<(String, Value, Value)> {
    let (a, b, res) = (i(c, "a"), i(c, "b"), i(c, "res"));
    let form = s(c, "form");
    let exact = c["exact"].as_bool().unwrap();
    // (k, j): operand scalings by powers of two; the prediction scales homomorphically
    let mut scalings: Vec<(u32, u32, i64)> = vec![]; // (k, j, result shift; -1 = unscaled)
    for k in [0u32, 1, 7, 20, 31, 32, 40, 52, 58] {
        match form {
            "add" | "sub" | "neg" | "from_i64" => scalings.push((k, k, k as i64)),
            "mul" => {
                for j in [0u32, 3, 22] {
                    if k + j <= 54 {
                        scalings.push((k, j, (k + j) as i64));
                    }
                }
            }
            _ => {
                scalings.push((k, k, 0)); // same scale: the quotient is unchanged, truncation included
                if exact {
                    for j in [0u32, 5] {
                        if j <= k {
                            scalings.push((k, j, (k - j) as i64));
                        }
                    }
                }
            }
        }
    }
    for (k, j, sh) in scalings {
        let (aa, bb) = (a << k, b << j);
        let exp = res << sh;
        match catch(|| int_op(c, aa, bb)) {
            Err(p) => return Some(("integer operator panicked".into(), json!(exp), json!({"panic": p, "a": aa, "b": bb}))),
            Ok(g) if g != exp => return Some((format!("result of {form} on Time/DimensionlessInteger"), json!(exp), json!({"got": g, "a": aa, "b": bb}))),
            _ => {}
        }
    }
    None
}

fn mixed_case(c: &Value, rng: &mut Rng) -> Option<(String, Value, Value)> {
    let (lk, rk, form, assign) = (s(c, "lk"), s(c, "rk"), s(c, "form"), c["assign"].as_bool().unwrap());
    let u = unit(&c["u"]);
    // sums / differences that do not panic are the forms where the order "round the integer to f32, then add" is observable: many more trials
    let rounds = if !c["panic"].as_bool().unwrap() && matches!(form, "add" | "sub") { 400 } else { 12 };
    for _ in 0..rounds {
        // magnitudes are stratified (uniform in the exponent), so that the float operand is often comparable to the rounding step
        // of the converted integer operand: that is where "convert, then apply the Quantity operator" differs from anything else
        let strat = |r: &mut Rng, max_bits: u32| -> i64 {
            let bits = r.range(1, max_bits as i64) as u32;
            let v = ((r.next() >> (64 - bits)) | (1u64 << (bits - 1))) as i64;
            if r.next() & 1 == 0 { v } else { -v }
        };
        let q = Quantity::new(rng.float(-10, 30), u);
        let t1 = Time(strat(rng, 55));
        let t2 = Time(strat(rng, 55));
        let d1 = DimensionlessInteger(strat(rng, 45));
        let d2 = DimensionlessInteger(strat(rng, 45));
        macro_rules! qop {
            ($x:expr, $y:expr) => {{
                let (x, y): (Quantity, Quantity) = ($x, $y);
                match form {
                    "add" => x + y,
                    "sub" => x - y,
                    "mul" => x * y,
                    _ => x / y,
                }
            }};
        }
        macro_rules! mop {
            ($x:expr, $y:expr) => {{
                let (x, y) = ($x, $y);
                match form {
                    "add" => x + y,
                    "sub" => x - y,
                    "mul" => x * y,
                    _ => x / y,
                }
            }};
        }
        macro_rules! mop_assign {
            ($x:expr, $y:expr) => {{
                let (x, y) = ($x, $y);
                let mut m = x;
                match form {
                    "add" => m += y,
                    "sub" => m -= y,
                    "mul" => m *= y,
                    _ => m /= y,
                }
                m
            }};
        }
        let mixed: Result<Quantity, String> = catch(|| match (lk, rk, assign) {
            ("q", "t", false) => mop!(q, t2),
            ("q", "t", true) => mop_assign!(q, t2),
            ("q", "di", false) => mop!(q, d2),
            ("q", "di", true) => mop_assign!(q, d2),
            ("t", "q", _) => mop!(t1, q),
            ("di", "q", _) => mop!(d1, q),
            ("t", "t", _) => if form == "mul" { t1 * t2 } else { t1 / t2 },
            ("di", "t", _) => d1 / t2,
            x => {
                eprintln!("mixed form not implemented: {x:?}");
                std::process::exit(2)
            }
        });
        // the Quantity operator applied after converting the non-Quantity operands, same operand order
        let conv: Result<Quantity, String> = catch(|| {
            let l = match lk { "q" => q, "t" => Quantity::from(t1), _ => Quantity::from(d1) };
            let r = match rk { "q" => q, "t" => Quantity::from(t2), _ => Quantity::from(d2) };
            qop!(l, r)
        });
        let exp_panic = c["panic"].as_bool().unwrap();
        let ins = json!({"q": q.value, "t1": t1.0, "t2": t2.0, "d1": d1.0, "d2": d2.0});
        match (&mixed, &conv) {
            (Err(_), Err(_)) if exp_panic => continue,
            (Ok(a), Ok(b)) if !exp_panic => {
                let units_ok = {
                    #[cfg(feature = "dimcheck")]
                    { a.unit == b.unit }
                    #[cfg(not(feature = "dimcheck"))]
                    { true }
                };
                if !same(a.value, b.value) || !units_ok {
                    return Some(("mixed operator differs from the Quantity operator after conversion".into(),
                                 json!({"value": b.value, "bits": b.value.to_bits(), "unit": unit_exps(b.unit)}),
                                 json!({"value": a.value, "bits": a.value.to_bits(), "unit": unit_exps(a.unit), "inputs": ins})));
                }
            }
            _ => {
                return Some(("panic behaviour of the mixed operator / of the converted operator".into(), json!({"panic": exp_panic}),
                             json!({"mixed_panicked": mixed.is_err(), "converted_panicked": conv.is_err(), "inputs": ins})));
            }
        }
    }
    None
}

fn conv_case(c: &Value, rng: &mut Rng) -> Option<(String, Value, Value)> {
    match s(c, "form") {
        "exact" => {
            let (m, j) = (i(c, "m"), i(c, "j"));
            let ns = m * 1_953_125 * (1i64 << j);
            let secs = (m as f64) * 2f64.powi(j as i32 - 9);
            let q = Quantity::from(Time(ns));
            if !unit_is(q.unit, 0, 1) || q.value as f64 != secs {
                return Some(("Quantity::from(Time) on the exact sub-domain".into(), json!({"seconds": secs}), json!({"value": q.value, "unit": unit_exps(q.unit), "ns": ns})));
            }
            let back = Time::try_from(Quantity::new(secs as f32, SECOND));
            if back != Ok(Time(ns)) {
                return Some(("Time::try_from(Quantity) on the exact sub-domain".into(), json!({"ns": ns}), json!(format!("{back:?}"))));
            }
            let qd = Quantity::from(DimensionlessInteger(m << j.min(20)));
            if !unit_is(qd.unit, 0, 0) || qd.value as f64 != ((m << j.min(20)) as f64) {
                return Some(("Quantity::from(DimensionlessInteger)".into(), json!(m << j.min(20)), json!(qd.value)));
            }
            None
        }
        "truncate" => {
            // value * 1e9 is exactly representable in f32 here, so the only freedom left is how the fraction is dropped: truncation
            let secs = (i(c, "m") as f64) * 2f64.powi(-(i(c, "j") as i32));
            let got = Time::try_from(Quantity::new(secs as f32, SECOND));
            // the exact product has a fractional part: the property allows 1 ns here; which of the two neighbours is returned must
            // not depend on the configuration (C19 compares the OBS lines of the configurations with each other)
            match got {
                Ok(t) if (t.0 - i(c, "ns")).abs() <= 1 => {
                    println!("OBS {}", json!({"m": c["m"], "j": c["j"], "ns": t.0}));
                    None
                }
                _ => Some(("Time::try_from(Quantity): value * 1e9 within 1 ns".into(), json!({"seconds": secs, "ns": c["ns"]}), json!(format!("{got:?}")))),
            }
        }
        "time_try_from" => {
            let v = rng.float(-20, 3);
            let got = Time::try_from(Quantity::new(v, unit(&c["u"])));
            if got.is_ok() != c["ok"].as_bool().unwrap() {
                return Some(("Time::try_from(Quantity) accepts exactly seconds".into(), c["ok"].clone(), json!(format!("{got:?}"))));
            }
            None
        }
        _ => {
            let v = rng.float(-3, 20);
            let got = DimensionlessInteger::try_from(Quantity::new(v, unit(&c["u"])));
            let ok = c["ok"].as_bool().unwrap();
            if got.is_ok() != ok || (ok && got != Ok(DimensionlessInteger(v as i64))) {
                return Some(("DimensionlessInteger::try_from(Quantity)".into(), json!({"ok": ok, "value": v as i64}), json!(format!("{got:?}"))));
            }
            None
        }
    }
}

/// the f32 nearest to num / den (ties to even), computed exactly
fn nearest_f32(t: i64) -> f32 {
    if t == 0 {
        return 0.0;
    }
    let c = (t as f64 / 1e9) as f32;
    let cands = [f32::from_bits(c.to_bits() - 1), c, f32::from_bits(c.to_bits() + 1)];
    // |cand * 1e9 - t| compared exactly: cand = M * 2^e
    let mut best: Option<(i128, i32, f32)> = None; // (numerator of |diff|, shift, cand)  diff = num / 2^shift
    for cand in cands {
        let bits = cand.to_bits();
        let exp = ((bits >> 23) & 0xff) as i32;
        let man = (bits & 0x7f_ffff) as i128;
        let (mm, e) = if exp == 0 { (man, -149) } else { (man | 0x80_0000, exp - 150) };
        let mm = if cand < 0.0 { -mm } else { mm };
        // diff = mm * 2^e * 1e9 - t ; bring to a common denominator 2^64 (e >= -80 here)
        let sh = 64;
        let a = if e + sh >= 0 { (mm * 1_000_000_000i128) << (e + sh) as u32 } else { (mm * 1_000_000_000i128) >> (-(e + sh)) as u32 };
        let d = (a - ((t as i128) << sh)).abs();
        let better = match &best {
            None => true,
            Some((bd, _, bc)) => d < *bd || (d == *bd && (cand.to_bits() & 1 == 0) && (bc.to_bits() & 1 == 1)),
        };
        if better {
            best = Some((d, sh, cand));
        }
    }
    best.unwrap().2
}
fn clip_pair(err: i128, bound: i128) -> (i64, i64) {
    // shift both right until the bound fits in 30 bits (monotone, so err <= bound is preserved)
    let mut s = 0;
    while (bound >> s) >= (1 << 30) {
        s += 1;
    }
    (((err.abs()) >> s).min(1 << 30) as i64, (bound >> s) as i64)
}

fn record(path: &str, seed: u64, n: usize) {
    let mut rng = Rng::new(seed);
    let mut f = std::io::BufWriter::new(std::fs::File::create(path).expect("create trace"));
    let batches = (n / 64).max(1);
    for _ in 0..batches {
        writeln!(f, "{}", json!({"k": "reset"})).unwrap();
        // a sorted batch of times, stratified over magnitudes 0 .. 2^62 and signs, with clusters of adjacent values
        let mut ts: Vec<i64> = vec![0, 1, -1];
        for _ in 0..24 {
            let mag = rng.range(0, 62) as u32;
            let v = (rng.next() >> (63 - mag).min(63)) as i64;
            let v = if rng.next() & 1 == 0 { v } else { -v };
            ts.push(v);
            if rng.next() & 3 == 0 {
                ts.push(v.saturating_add(rng.range(1, 3)));
            }
        }
        ts.sort();
        ts.dedup();
        for (rank, t) in ts.iter().enumerate() {
            let q = Quantity::from(Time(*t));
            let key = f32_key(q.value);
            let refkey = f32_key(nearest_f32(*t));
            // round trip
            let back = Time::try_from(q).map(|x| x.0);
            let (err, bound) = match back {
                Ok(b) => clip_pair(b as i128 - *t as i128, ((*t as i128).abs() >> 22) + 1),
                Err(()) => (1 << 30, 0),
            };
            writeln!(f, "{}", json!({"k": "t2q", "rank": rank + 1, "key": key, "ref": refkey, "unit_ok": unit_is(q.unit, 0, 1),
                                     "rt_err": err, "rt_bound": bound})).unwrap();
        }
        // seconds -> time
        for _ in 0..24 {
            let x = rng.float(-30, 32);
            if !(x.abs() < 9e9) {
                continue;
            }
            let got = Time::try_from(Quantity::new(x, SECOND));
            // exact x * 1e9 = M * 2^e * 1e9
            let bits = x.to_bits();
            let exp = ((bits >> 23) & 0xff) as i32;
            let man = (bits & 0x7f_ffff) as i128;
            let (mm, e) = if exp == 0 { (man, -149) } else { (man | 0x80_0000, exp - 150) };
            let prod = mm * 1_000_000_000i128; // |x| * 1e9 = prod * 2^e
            let exact_abs: i128 = if e >= 0 { prod << e as u32 } else if -e < 127 { prod >> (-e) as u32 } else { 0 }; // truncated
            let exact = if x < 0.0 { -exact_abs } else { exact_abs };
            // one f32 rounding of the product: at most 1 ulp of the product's magnitude, plus 1 ns truncation (+1 for our own truncation)
            let mut ulp: i128 = 1;
            while (ulp << 24) <= exact_abs {
                ulp <<= 1;
            }
            let (err, bound) = match got {
                Ok(g) => clip_pair(g.0 as i128 - exact, ulp + 2),
                Err(()) => (1 << 30, 0),
            };
            writeln!(f, "{}", json!({"k": "q2t", "err": err, "bound": bound})).unwrap();
        }
    }
    f.flush().unwrap();
}

fn main() {
    silence_panics();
    let args: Vec<String> = std::env::args().collect();
    if args.len() >= 5 && args[1] == "record" {
        record(&args[2], args[3].parse().unwrap_or(1), args[4].parse().unwrap_or(1000));
        println!("SUMMARY {}", json!({"recorded": true}));
        return;
    }
    if args.len() < 4 || args[1] != "replay" {
        eprintln!("usage: timeint replay <cases.ndjson> <seed> | timeint record <out> <seed> <n>");
        std::process::exit(2);
    }
    let lines = read_lines(&args[2]);
    let mut rng = Rng::new(args[3].parse().unwrap_or(1));
    let only: Option<usize> = args.iter().position(|a| a == "--only").map(|p| args[p + 1].parse().unwrap());
    let mut rep = Report::new();
    for (ln, l) in lines.iter().enumerate() {
        if let Some(o) = only {
            if o != ln {
                continue;
            }
        }
        let rec: Value = serde_json::from_str(l).unwrap_or_else(|e| {
            eprintln!("bad line {ln}: {e}");
            std::process::exit(2)
        });
        if rec["dimcheck"].as_bool() != Some(DIMCHECK) {
            eprintln!("cases were generated for DimCheck={} but the harness was built with {}", rec["dimcheck"], DIMCHECK);
            std::process::exit(2);
        }
        let c = &rec["case"];
        rep.count("behaviours", 1);
        rep.count("replays", 1);
        let r = match s(c, "family") {
            "int" => {
                if i(c, "a") != 0 && i(c, "b") != 0 {
                    rep.count("nontrivial", 1);
                }
                int_case(c)
            }
            "mixed" => {
                rep.count("nontrivial", 1);
                mixed_case(c, &mut rng)
            }
            _ => {
                rep.count("nontrivial", 1);
                conv_case(c, &mut rng)
            }
        };
        if let Some((what, exp, got)) = r {
            rep.mismatch(json!({"line": ln, "family": c["family"], "what": what, "exp": exp, "got": got}));
        }
    }
    rep.finish();
}
