//! Replay of behaviours emitted by TLC from spec/Streams.tla against the real rrtk streams.
//!
//! usage: streams replay <behaviours.ndjson> <concs.json> [--only <line>]
//!
//! Every behaviour is executed under every concretisation; after every event the return value
//! of update()/set() and 1..3 calls of get() are compared with the specification's prediction,
//! the reset twin (a freshly constructed real stream fed the events from the last reset onward)
//! and the skip-absent twin are compared with the main stream bit for bit.
use rrtk::streams::control::*;
use rrtk::streams::converters::*;
use rrtk::streams::flow::*;
use rrtk::streams::math::*;
use rrtk::*;
use rrtk_conform::*;
use serde_json::{json, Value};
use std::cell::RefCell;
use std::rc::Rc;

static ANY_ERROR_ID: std::sync::atomic::AtomicBool = std::sync::atomic::AtomicBool::new(false);

/// equality of two observations; with --any-error-id two errors are alike whatever their identity
fn same_obs(a: &Obs, b: &Obs) -> bool {
    a.bits_eq(b) || (ANY_ERROR_ID.load(std::sync::atomic::Ordering::Relaxed) && matches!((a, b), (Obs::Err(_), Obs::Err(_))))
}

struct Machine {
    feed: Box<dyn FnMut(&Value, Time, &Conc)>,
    update: Box<dyn FnMut() -> NothingOrError<E>>,
    set: Box<dyn FnMut(Command) -> NothingOrError<E>>,
    get: Box<dyn Fn() -> (Obs, Option<String>)>,
}

fn out_of(ev: &Value, t: Time, conc: &Conc) -> Output<f32, E> {
    match s(ev, "c") {
        "some" => Ok(Some(Datum::new(t, conc.val(&ev["v"])))),
        "none" => Ok(None),
        "err" => Err(mk_err(i(ev, "e"))),
        c => panic!("bad event {c}"),
    }
}
fn unit_of(par: &Value) -> Unit {
    Unit::new(par["unit"][0].as_i64().unwrap() as i8, par["unit"][1].as_i64().unwrap() as i8)
}
fn q_out(ev: &Value, t: Time, conc: &Conc, unit: Unit) -> Output<Quantity, E> {
    out_of(ev, t, conc).map(|o| o.map(|d| Datum::new(d.time, Quantity::new(d.value, unit))))
}
fn gains(g: &Value, tau: f64) -> PIDKValues {
    // time is measured in ticks by the specification: ki/tau and kd*tau give the same numbers
    PIDKValues::new(rat(&g["kp"]) as f32, (rat(&g["ki"]) / tau) as f32, (rat(&g["kd"]) * tau) as f32)
}
fn pd(k: i64) -> PositionDerivative {
    match k {
        0 => PositionDerivative::Position,
        1 => PositionDerivative::Velocity,
        _ => PositionDerivative::Acceleration,
    }
}
fn cmd_of(c: &Value, conc: &Conc) -> Command {
    Command::new(pd(i(c, "k")), conc.val(&c["v"]))
}
fn window_ns(par: &Value, conc: &Conc) -> i64 {
    par.get("w_ns").and_then(|x| x.as_i64()).unwrap_or_else(|| i(par, "w") * conc.tick_ns())
}
fn check_unit(q: &Output<Quantity, E>, want: Option<(i64, i64)>) -> Option<String> {
    if let (Ok(Some(d)), Some((m, sx))) = (q, want) {
        if !unit_is(d.value.unit, m, sx) {
            return Some(format!("unit {:?} expected ({m},{sx})", unit_exps(d.value.unit)));
        }
    }
    None
}

fn make(kind: &str, par: &Value, conc: &Conc, cmd: Option<Command>) -> Machine {
    let tau = conc.tau();
    macro_rules! machine_f32_in {
        ($stream:expr, $inp:ident, $getter:expr) => {{
            let st = Rc::new(RefCell::new($stream));
            let (s1, s2) = (st.clone(), st.clone());
            let inp2 = $inp.cell.clone();
            Machine {
                feed: Box::new(move |ev, t, c| *inp2.borrow_mut() = out_of(ev, t, c)),
                update: Box::new(move || s1.borrow_mut().update()),
                set: Box::new(|_| Ok(())),
                get: Box::new(move || $getter(&*s2.borrow())),
            }
        }};
    }
    macro_rules! machine_q_in {
        ($stream:expr, $inp:ident, $unit:expr, $getter:expr) => {{
            let st = Rc::new(RefCell::new($stream));
            let (s1, s2) = (st.clone(), st.clone());
            let inp2 = $inp.cell.clone();
            let u: Unit = $unit;
            Machine {
                feed: Box::new(move |ev, t, c| *inp2.borrow_mut() = q_out(ev, t, c, u)),
                update: Box::new(move || s1.borrow_mut().update()),
                set: Box::new(|_| Ok(())),
                get: Box::new(move || $getter(&*s2.borrow())),
            }
        }};
    }
    match kind {
        "PID" => {
            let inp = Scripted::<f32>::new();
            let stream = PIDControllerStream::new(inp.getter.clone(), conc.val(&par["sp"]), gains(par, tau));
            machine_f32_in!(stream, inp, |x: &PIDControllerStream<_, E>| (obs_f32(x.get()), None))
        }
        "CmdPID" => {
            let inp = Scripted::<State>::new();
            let g = &par["gains"];
            let kv = PositionDerivativeDependentPIDKValues::new(gains(&g[0], tau), gains(&g[1], tau), gains(&g[2], tau));
            let c0 = cmd.unwrap_or_else(|| cmd_of(&par["cmd"], conc));
            let st = Rc::new(RefCell::new(CommandPID::new(inp.getter.clone(), c0, kv)));
            let (s1, s2, s3) = (st.clone(), st.clone(), st.clone());
            let inp2 = inp.cell.clone();
            Machine {
                feed: Box::new(move |ev, t, c| {
                    *inp2.borrow_mut() = match s(ev, "c") {
                        "some" => Ok(Some(Datum::new(
                            t,
                            State::new_raw(c.val(&ev["v"][0]), c.val(&ev["v"][1]), c.val(&ev["v"][2])),
                        ))),
                        "none" => Ok(None),
                        "err" => Err(mk_err(i(ev, "e"))),
                        _ => return,
                    }
                }),
                update: Box::new(move || s1.borrow_mut().update()),
                set: Box::new(move |c| s3.borrow_mut().set(c)),
                get: Box::new(move || (obs_f32(s2.borrow().get()), None)),
            }
        }
        "CmdPIDF" => {
            // the same controller, following a scripted command getter from the start
            let inp = Scripted::<State>::new();
            let folg = Scripted::<Command>::new();
            let g = &par["gains"];
            let kv = PositionDerivativeDependentPIDKValues::new(gains(&g[0], tau), gains(&g[1], tau), gains(&g[2], tau));
            let c0 = cmd.unwrap_or_else(|| cmd_of(&par["cmd"], conc));
            let mut pid = CommandPID::new(inp.getter.clone(), c0, kv);
            pid.follow(Reference::from_rc_ref_cell(Rc::new(RefCell::new(CellGetter { cell: folg.cell.clone(), reads: folg.reads.clone() })) as Rc<RefCell<dyn Getter<Command, E>>>));
            let st = Rc::new(RefCell::new(pid));
            let (s1, s2, s3) = (st.clone(), st.clone(), st.clone());
            let (inp2, fol2) = (inp.cell.clone(), folg.cell.clone());
            Machine {
                feed: Box::new(move |ev, t, c| match s(ev, "c") {
                    "fol" => {
                        let o = &ev["o"];
                        *fol2.borrow_mut() = match s(o, "c") {
                            // stamped with a time that runs backwards: the followed datum's timestamp must not matter
                            "some" => Ok(Some(Datum::new(Time(-t.0), cmd_of(o, c)))),
                            "none" => Ok(None),
                            _ => Err(mk_err(i(o, "e"))),
                        };
                    }
                    "some" => {
                        *inp2.borrow_mut() = Ok(Some(Datum::new(t, State::new_raw(c.val(&ev["v"][0]), c.val(&ev["v"][1]), c.val(&ev["v"][2])))))
                    }
                    "none" => *inp2.borrow_mut() = Ok(None),
                    "err" => *inp2.borrow_mut() = Err(mk_err(i(ev, "e"))),
                    _ => {}
                }),
                update: Box::new(move || s1.borrow_mut().update()),
                set: Box::new(move |c| s3.borrow_mut().set(c)),
                get: Box::new(move || (obs_f32(s2.borrow().get()), None)),
            }
        }
        "EWMA" => {
            let inp = Scripted::<f32>::new();
            let stream = EWMAStream::<f32, _, E>::new(inp.getter.clone(), rat(&par["s"]) as f32);
            machine_f32_in!(stream, inp, |x: &EWMAStream<f32, _, E>| (obs_f32(x.get()), None))
        }
        "EWMAQ" => {
            let inp = Scripted::<Quantity>::new();
            let stream = EWMAStream::<Quantity, _, E>::new(inp.getter.clone(), rat(&par["s"]) as f32);
            machine_q_in!(stream, inp, MILLIMETER_PER_SECOND, |x: &EWMAStream<Quantity, _, E>| {
                let o = x.get();
                let u = check_unit(&o, Some((1, -1)));
                (obs_q(o), u)
            })
        }
        "MA" => {
            let inp = Scripted::<f32>::new();
            let stream = MovingAverageStream::<f32, _, E>::new(inp.getter.clone(), Time(window_ns(par, conc)));
            machine_f32_in!(stream, inp, |x: &MovingAverageStream<f32, _, E>| (obs_f32(x.get()), None))
        }
        "MAQ" => {
            let inp = Scripted::<Quantity>::new();
            let stream = MovingAverageStream::<Quantity, _, E>::new(inp.getter.clone(), Time(window_ns(par, conc)));
            machine_q_in!(stream, inp, MILLIMETER_PER_SECOND, |x: &MovingAverageStream<Quantity, _, E>| {
                let o = x.get();
                let u = check_unit(&o, Some((1, -1)));
                (obs_q(o), u)
            })
        }
        "Integral" => {
            let inp = Scripted::<Quantity>::new();
            let (m, sx) = (par["unit"][0].as_i64().unwrap(), par["unit"][1].as_i64().unwrap());
            let stream = IntegralStream::new(inp.getter.clone());
            machine_q_in!(stream, inp, unit_of(par), move |x: &IntegralStream<_, E>| {
                let o = x.get();
                let u = check_unit(&o, Some((m, sx + 1)));
                (obs_q(o), u)
            })
        }
        "Derivative" => {
            let inp = Scripted::<Quantity>::new();
            let (m, sx) = (par["unit"][0].as_i64().unwrap(), par["unit"][1].as_i64().unwrap());
            let stream = DerivativeStream::new(inp.getter.clone());
            machine_q_in!(stream, inp, unit_of(par), move |x: &DerivativeStream<_, E>| {
                let o = x.get();
                let u = check_unit(&o, Some((m, sx - 1)));
                (obs_q(o), u)
            })
        }
        "AccToState" => {
            let inp = Scripted::<Quantity>::new();
            let stream = AccelerationToState::new(inp.getter.clone());
            machine_q_in!(stream, inp, unit_of(par), |x: &AccelerationToState<_, E>| (obs_state(x.get()), None))
        }
        "VelToState" => {
            let inp = Scripted::<Quantity>::new();
            let stream = VelocityToState::new(inp.getter.clone());
            machine_q_in!(stream, inp, unit_of(par), |x: &VelocityToState<_, E>| (obs_state(x.get()), None))
        }
        "PosToState" => {
            let inp = Scripted::<Quantity>::new();
            let stream = PositionToState::new(inp.getter.clone());
            machine_q_in!(stream, inp, unit_of(par), |x: &PositionToState<_, E>| (obs_state(x.get()), None))
        }
        "F2Q" => {
            let inp = Scripted::<f32>::new();
            let (m, sx) = (par["unit"][0].as_i64().unwrap(), par["unit"][1].as_i64().unwrap());
            let stream = FloatToQuantity::new(unit_of(par), inp.getter.clone());
            machine_f32_in!(stream, inp, move |x: &FloatToQuantity<_, E>| {
                let o = x.get();
                let u = check_unit(&o, Some((m, sx)));
                (obs_q(o), u)
            })
        }
        "Q2F" => {
            let inp = Scripted::<Quantity>::new();
            let stream = QuantityToFloat::new(inp.getter.clone());
            machine_q_in!(stream, inp, unit_of(par), |x: &QuantityToFloat<_, E>| (obs_f32(x.get()), None))
        }
        "Freeze" => {
            let inp = Scripted::<f32>::new();
            let cond = Scripted::<bool>::new();
            let st = Rc::new(RefCell::new(FreezeStream::<f32, _, _, E>::new(cond.getter.clone(), inp.getter.clone())));
            let (s1, s2) = (st.clone(), st.clone());
            let (ic, cc) = (inp.cell.clone(), cond.cell.clone());
            Machine {
                feed: Box::new(move |ev, t, c| {
                    *ic.borrow_mut() = out_of(&ev["in"], t, c);
                    *cc.borrow_mut() = match s(&ev["cond"], "c") {
                        "true" => Ok(Some(Datum::new(t, true))),
                        "false" => Ok(Some(Datum::new(t, false))),
                        "none" => Ok(None),
                        _ => Err(mk_err(i(&ev["cond"], "e"))),
                    };
                }),
                update: Box::new(move || s1.borrow_mut().update()),
                set: Box::new(|_| Ok(())),
                get: Box::new(move || (obs_f32(s2.borrow().get()), None)),
            }
        }
        k => {
            eprintln!("unknown kind {k}");
            std::process::exit(2)
        }
    }
}

/// The controller of examples/pid.rs assembled from the crate's own primitive streams
/// (difference, integral, derivative, none-to-value, product, quantity-to-float, 3-input sum).
/// Unlike the example's `update`, every stage is updated even if an earlier one reports an error.
fn dynq<T: Getter<Quantity, E> + 'static>(x: T) -> Reference<dyn Getter<Quantity, E>> {
    Reference::from_rc_ref_cell(Rc::new(RefCell::new(x)) as Rc<RefCell<dyn Getter<Quantity, E>>>)
}
fn dynf<T: Getter<f32, E> + 'static>(x: T) -> Reference<dyn Getter<f32, E>> {
    Reference::from_rc_ref_cell(Rc::new(RefCell::new(x)) as Rc<RefCell<dyn Getter<f32, E>>>)
}
fn make_composite(par: &Value, conc: &Conc) -> Machine {
    let tau = conc.tau();
    let inp = Scripted::<Quantity>::new();
    let input: Reference<dyn Getter<Quantity, E>> = dynq(CellGetter { cell: inp.cell.clone(), reads: inp.reads.clone() });
    let g = gains(par, tau);
    let tg = rc_ref_cell_reference(TimeGetterFromGetter::new(input.clone()));
    let setpoint = dynq(ConstantGetter::new(tg.clone(), Quantity::new(conc.val(&par["sp"]), MILLIMETER)));
    let kp = dynq(ConstantGetter::new(tg.clone(), Quantity::dimensionless(g.kp)));
    let ki = dynq(ConstantGetter::new(tg.clone(), Quantity::dimensionless(g.ki)));
    let kd = dynq(ConstantGetter::new(tg.clone(), Quantity::dimensionless(g.kd)));
    let error = dynq(DifferenceStream::new(setpoint.clone(), input.clone()));
    let int = dynq(IntegralStream::new(error.clone()));
    let drv = dynq(DerivativeStream::new(error.clone()));
    let int_zeroer = dynq(NoneToValue::new(int.clone(), tg.clone(), Quantity::new(0.0, MILLIMETER)));
    let drv_zeroer = dynq(NoneToValue::new(drv.clone(), tg.clone(), Quantity::new(0.0, MILLIMETER)));
    let kp_mul = dynq(ProductStream::new([kp.clone(), error.clone()]));
    let ki_mul = dynq(ProductStream::new([ki.clone(), int_zeroer.clone()]));
    let kd_mul = dynq(ProductStream::new([kd.clone(), drv_zeroer.clone()]));
    let pro_f = dynf(QuantityToFloat::new(kp_mul));
    let int_f = dynf(QuantityToFloat::new(ki_mul));
    let drv_f = dynf(QuantityToFloat::new(kd_mul));
    let output = Rc::new(SumStream::new([pro_f.clone(), int_f.clone(), drv_f.clone()]));
    let out2 = output.clone();
    let ic = inp.cell.clone();
    Machine {
        feed: Box::new(move |ev, t, c| *ic.borrow_mut() = q_out(ev, t, c, MILLIMETER)),
        update: Box::new(move || {
            let r1 = int.borrow_mut().update();
            let r2 = drv.borrow_mut().update();
            let _ = pro_f.borrow_mut().update();
            let _ = int_f.borrow_mut().update();
            let _ = drv_f.borrow_mut().update();
            r1.and(r2)
        }),
        set: Box::new(|_| Ok(())),
        get: Box::new(move || (obs_f32(out2.get()), None)),
    }
}

/// Factors by which the specification's (tick-based, unscaled) prediction is multiplied.
fn factors(kind: &str, cmdk: i64, conc: &Conc) -> Vec<f64> {
    let tau = conc.tau();
    let v = conc.vscale();
    match kind {
        "Integral" => vec![v * tau],
        "Derivative" => vec![v / tau],
        "AccToState" => vec![v * tau * tau, v * tau, v],
        "VelToState" => vec![v * tau, v, v / tau],
        "PosToState" => vec![v, v / tau, v / (tau * tau)],
        "CmdPID" | "CmdPIDF" => vec![v * tau.powi(cmdk as i32)],
        _ => vec![v],
    }
}
fn exp_vals(v: &Value) -> Vec<f64> {
    if v[0].is_array() {
        v.as_array().unwrap().iter().map(rat).collect()
    } else {
        vec![rat(v)]
    }
}

struct Ctx<'a> {
    rep: &'a mut Report,
    line: usize,
    conc: &'a Conc,
    kind: &'a str,
}
impl Ctx<'_> {
    fn bad(&mut self, step: usize, what: &str, exp: Value, got: Value) {
        self.rep.mismatch(json!({"line": self.line, "kind": self.kind, "conc": self.conc.to_json(),
                                 "step": step, "what": what, "exp": exp, "got": got}));
    }
}

fn replay(beh: &Value, line: usize, conc: &Conc, rep: &mut Report, structure_only: bool) {
    let kind = s(beh, "kind");
    let par = &beh["par"];
    let steps = beh["steps"].as_array().unwrap();
    // only the to-state converters consult units; every other kind behaves the same with and without dimension checking
    if matches!(kind, "AccToState" | "VelToState" | "PosToState") && beh["dimcheck"].as_bool() != Some(DIMCHECK) {
        eprintln!("behaviour file was generated for DimCheck={} but the harness was built with {}", beh["dimcheck"], DIMCHECK);
        std::process::exit(2);
    }
    let mut ctx = Ctx { rep, line, conc, kind };
    let mut main = make(kind, par, conc, None);
    let mut twin = make(kind, par, conc, None);
    let mut skip = make(kind, par, conc, None);
    // C12: the Quantity variant of a filter produces the same numbers as the f32 variant
    let mut variant = match kind {
        _ if structure_only => None,
        "EWMA" => Some(make("EWMAQ", par, conc, None)),
        "MA" => Some(make("MAQ", par, conc, None)),
        _ => None,
    };
    // C04: the same controller assembled from primitive streams
    let mut composite = if kind == "PID" && !structure_only { Some(make_composite(par, conc)) } else { None };
    let ignores_absent = matches!(kind, "EWMA" | "EWMAQ" | "MA" | "MAQ" | "AccToState" | "VelToState" | "PosToState");
    let is_cmd = kind == "CmdPID" || kind == "CmdPIDF";
    let mut cur_cmd: Option<Command> = if is_cmd { Some(cmd_of(&par["cmd"], conc)) } else { None };
    let mut cmdk = if is_cmd { i(&par["cmd"], "k") } else { 0 };
    let mut cur_fol: Value = json!({"c": "none"});
    // largest magnitude predicted anywhere in the behaviour: scale of the tolerance
    let mut mag = 0f64;
    for st in steps {
        if st["out"]["c"] == "some" {
            for x in exp_vals(&st["out"]["v"]) {
                mag = mag.max(x.abs());
            }
        }
    }
    for (idx, st) in steps.iter().enumerate() {
        let ev = &st["in"];
        let t = conc.time(i(st, "t"));
        let is_set = s(ev, "c") == "set";
        let reset = st["reset"].as_bool().unwrap_or(false);
        let is_fol = s(ev, "c") == "fol";
        if reset {
            twin = make(kind, par, conc, cur_cmd);
            if kind == "CmdPIDF" {
                (twin.feed)(&json!({"c": "fol", "o": cur_fol}), t, conc); // the fresh controller follows the same getter
            }
        }
        let drive = |m: &mut Machine| -> Result<NothingOrError<E>, String> {
            if is_fol {
                (m.feed)(ev, t, conc);
                Ok(Ok(()))
            } else if is_set {
                let c = cmd_of(ev, conc);
                catch(|| (m.set)(c))
            } else {
                (m.feed)(ev, t, conc);
                catch(|| (m.update)())
            }
        };
        let r = drive(&mut main);
        if !ret_matches(&st["ret"], &r) {
            ctx.bad(idx, "return value of update/set", st["ret"].clone(), ret_json(&r));
            return;
        }
        if r.is_err() {
            // predicted panic: the object is not used again
            ctx.rep.count("predicted_panics", 1);
            return;
        }
        if is_set {
            cur_cmd = Some(cmd_of(ev, conc));
            cmdk = i(ev, "k");
        }
        if is_fol {
            cur_fol = ev["o"].clone();
        } else if kind == "CmdPIDF" && cur_fol["c"] == "some" {
            // the update forwarded the followed command to set()
            cur_cmd = Some(cmd_of(&cur_fol, conc));
            cmdk = i(&cur_fol, "k");
        }
        if r.as_ref().map(|x| x.is_err()).unwrap_or(false) && kind == "CmdPIDF" && cur_fol["c"] == "err" {
            // aborted update: the followed getter failed before anything was read
        }
        let rt = drive(&mut twin);
        let skip_fed = !(ignores_absent && s(ev, "c") == "none");
        if skip_fed {
            let _ = drive(&mut skip);
        }
        // 1..3 reads; all must agree (get is pure)
        let ngets = 1 + ((line * 7 + idx * 3) % 3);
        let got = catch(|| (main.get)());
        let (obs, unit_problem) = match got {
            Ok(x) => x,
            Err(m) => {
                ctx.bad(idx, "get() panicked", st["out"].clone(), json!(m));
                return;
            }
        };
        for _ in 1..ngets {
            let again = catch(|| (main.get)()).map(|x| x.0).unwrap_or(Obs::Panic("panic".into()));
            if !same_obs(&again, &obs) {
                ctx.bad(idx, "repeated get() differs", obs.to_json(), again.to_json());
                return;
            }
        }
        if let Some(p) = unit_problem {
            ctx.bad(idx, "unit of output", json!(null), json!(p));
        }
        // (C05) between updates get() does not depend on what the input does meanwhile: the input is made to fail with an error the
        // history never uses, get() is read again, and the input is put back
        if structure_only && !is_set && !is_fol && kind != "CmdPIDF" {
            let mut pert = ev.clone();
            if pert.get("in").is_some() {
                pert["in"] = json!({"c": "err", "e": 9});
            } else {
                pert = json!({"c": "err", "e": 9, "t": 0});
            }
            (main.feed)(&pert, t, conc);
            let later = catch(|| (main.get)()).map(|x| x.0).unwrap_or(Obs::Panic("panic".into()));
            (main.feed)(ev, t, conc);
            if !same_obs(&later, &obs) {
                ctx.bad(idx, "get() changed although no update happened (the input was changed in between)", obs.to_json(), later.to_json());
                return;
            }
        }
        // compare with the prediction
        let exp = &st["out"];
        let ok = match (s(exp, "c"), &obs) {
            // WHICH error is shown is C05's clause (and C11's); the numeric properties only need an error where one is due
            ("err", Obs::Err(e)) => ANY_ERROR_ID.load(std::sync::atomic::Ordering::Relaxed) || *e == i(exp, "e"),
            ("none", Obs::Absent) => true,
            ("some", Obs::Present { t: tt, vals }) => {
                let f = factors(kind, cmdk, conc);
                let ev_ = exp_vals(&exp["v"]);
                *tt == conc.time(i(exp, "t")).0
                    && vals.len() == ev_.len()
                    && (structure_only || vals.iter().zip(ev_.iter()).zip(f.iter()).all(|((g, e), k)| close(*g, e * k, mag * k)))
            }
            _ => false,
        };
        if !ok {
            let mut e2 = exp.clone();
            if exp["c"] == "some" {
                let f = factors(kind, cmdk, conc);
                e2["scaled"] = json!(exp_vals(&exp["v"]).iter().zip(f.iter()).map(|(a, b)| a * b).collect::<Vec<_>>());
                e2["t_ns"] = json!(conc.time(i(exp, "t")).0);
            }
            ctx.bad(idx, "get() after the event", e2, obs.to_json());
            return;
        }
        // reset twin: a new stream fed the events from the last reset onward shows the same
        if rt.is_ok() {
            let tobs = catch(|| (twin.get)()).map(|x| x.0).unwrap_or(Obs::Panic("panic".into()));
            if !same_obs(&tobs, &obs) {
                ctx.bad(idx, "reset twin (fresh stream fed the events since the last reset) differs", tobs.to_json(), obs.to_json());
                return;
            }
        }
        if let Some(v) = variant.as_mut() {
            let _ = drive(v);
            let vobs = catch(|| (v.get)()).map(|x| x.0).unwrap_or(Obs::Panic("panic".into()));
            if !same_obs(&vobs, &obs) {
                ctx.bad(idx, "Quantity variant of the filter differs from the f32 variant", obs.to_json(), vobs.to_json());
                return;
            }
        }
        if let Some(c) = composite.as_mut() {
            let _ = drive(c);
            if s(ev, "c") == "some" {
                let cobs = catch(|| (c.get)()).map(|x| x.0).unwrap_or(Obs::Panic("panic".into()));
                let same = match (&cobs, &obs) {
                    (Obs::Present { t: a, vals: x }, Obs::Present { t: b, vals: y }) => {
                        a == b && close(x[0], y[0] as f64, mag * conc.vscale())
                    }
                    _ => false,
                };
                if !same {
                    ctx.bad(idx, "controller assembled from primitive streams disagrees with PIDControllerStream", obs.to_json(), cobs.to_json());
                    return;
                }
            }
        }
        if ignores_absent && skip_fed {
            let sobs = catch(|| (skip.get)()).map(|x| x.0).unwrap_or(Obs::Panic("panic".into()));
            if !same_obs(&sobs, &obs) {
                ctx.bad(idx, "skip-absent twin (same history without the absent events) differs", sobs.to_json(), obs.to_json());
                return;
            }
        }
        ctx.rep.count("steps", 1);
    }
    ctx.rep.count("replays", 1);
}

/// A behaviour is non-trivial if a present sample follows an event the kind treats as a reset, or
/// (kinds with no reset in the behaviour) it contains at least two present samples.
fn nontrivial(beh: &Value) -> bool {
    let steps = beh["steps"].as_array().unwrap();
    let present = |st: &Value| st["in"]["c"] == "some" || st["in"]["in"]["c"] == "some";
    let mut after_reset = false;
    let mut seen_reset = false;
    let mut n_present = 0;
    for st in steps {
        if present(st) {
            n_present += 1;
            if seen_reset {
                after_reset = true;
            }
        } else if st["reset"].as_bool() == Some(true) {
            seen_reset = true;
        }
    }
    after_reset || n_present >= 2
}


// ------------------------------------------------------------------------------------------------
// recorder: random histories on arbitrary floats, logged for spec/StreamsTrace.tla
// ------------------------------------------------------------------------------------------------
const REC_KINDS: [&str; 14] = ["PID", "CmdPID", "EWMA", "EWMAQ", "MA", "MAQ", "Integral", "Derivative", "AccToState", "VelToState", "PosToState", "F2Q", "Q2F", "Freeze"];

fn out_json(o: &Obs, base: i64, tick: i64, rescale: f32) -> Value {
    match o {
        Obs::Err(e) => json!({"c": "err", "e": e, "t": 0, "keys": []}),
        Obs::Absent => json!({"c": "none", "e": 0, "t": 0, "keys": []}),
        Obs::Present { t, vals } => {
            let d = t - base;
            let tt = if d % tick == 0 { d / tick } else { -1 };
            json!({"c": "some", "e": 0, "t": tt, "keys": vals.iter().map(|x| f32_key(*x * rescale)).collect::<Vec<_>>()})
        }
        Obs::Panic(_) => json!({"c": "panic", "e": 0, "t": 0, "keys": []}),
    }
}

// ------------------------------------------------------------------------------------------------
// f64 reference evaluator for the recorded traces (numeric accuracy on arbitrary floats and odd nanosecond intervals):
// the textbook formula of each kind over the present samples since the last reset, with exact i64 intervals, and the
// magnitude that a rounding tolerance "proportional to f32 epsilon" is proportional to.  Returns (value, magnitude) per
// output component, or None when the kind has no reference here / the output must be absent.
// ------------------------------------------------------------------------------------------------
fn reference(kind: &str, par: &Value, hist: &[(i64, f64)], w_ns: i64, cmd: (i64, f32)) -> Option<Vec<(f64, f64)>> {
    let n = hist.len();
    if n == 0 {
        return None;
    }
    let dt = |i: usize| (hist[i].0 - hist[i - 1].0) as f64 / 1e9;
    let f = |name: &str| rat(&par[name]) as f32 as f64;
    match kind {
        "Integral" => {
            if n < 2 { return None; }
            let (mut v, mut m) = (0.0, 0.0);
            for i in 1..n {
                v += (hist[i - 1].1 + hist[i].1) / 2.0 * dt(i);
                m += (hist[i - 1].1.abs() + hist[i].1.abs()) / 2.0 * dt(i);
            }
            Some(vec![(v, m)])
        }
        "Derivative" => {
            if n < 2 { return None; }
            Some(vec![((hist[n - 1].1 - hist[n - 2].1) / dt(n - 1), (hist[n - 1].1.abs() + hist[n - 2].1.abs()) / dt(n - 1))])
        }
        "PID" => {
            let (sp, kp, ki, kd) = (f("sp"), f("kp"), f("ki"), f("kd"));
            let e = |i: usize| sp - hist[i].1;
            let (mut int, mut mint) = (0.0, 0.0);
            for i in 1..n {
                int += (e(i - 1) + e(i)) / 2.0 * dt(i);
                mint += (e(i - 1).abs() + e(i).abs()) / 2.0 * dt(i);
            }
            let (der, mder) = if n >= 2 { ((e(n - 1) - e(n - 2)) / dt(n - 1), (e(n - 1).abs() + e(n - 2).abs()) / dt(n - 1)) } else { (0.0, 0.0) };
            Some(vec![(kp * e(n - 1) + ki * int + kd * der, kp.abs() * (sp.abs() + hist[n - 1].1.abs()) + ki.abs() * mint + kd.abs() * mder)])
        }
        "CmdPID" => {
            // hist holds the state component the command's kind selects; the controller output is integrated as often as the kind says
            let g = &par["gains"][cmd.0 as usize];
            let (kp, ki, kd) = (rat(&g["kp"]) as f32 as f64, rat(&g["ki"]) as f32 as f64, rat(&g["kd"]) as f32 as f64);
            let target = cmd.1 as f64;
            let e = |i: usize| target - hist[i].1;
            let me = |i: usize| target.abs() + hist[i].1.abs();
            let (mut eint, mut meint) = (0.0f64, 0.0f64);
            let (mut out_prev, mut mout_prev) = (kp * e(0), kp.abs() * me(0));
            let (mut oint, mut moint, mut oii, mut moii) = (0.0f64, 0.0f64, 0.0f64, 0.0f64);
            for i in 1..n {
                eint += (e(i - 1) + e(i)) / 2.0 * dt(i);
                meint += (me(i - 1) + me(i)) / 2.0 * dt(i);
                let out = kp * e(i) + ki * eint + kd * (e(i) - e(i - 1)) / dt(i);
                let mout = kp.abs() * me(i) + ki.abs() * meint + kd.abs() * (me(i) + me(i - 1)) / dt(i);
                let (noint, nmoint) = (oint + (out_prev + out) / 2.0 * dt(i), moint + (mout_prev + mout) / 2.0 * dt(i));
                if i >= 2 {
                    oii += (oint + noint) / 2.0 * dt(i);
                    moii += (moint + nmoint) / 2.0 * dt(i);
                }
                oint = noint;
                moint = nmoint;
                out_prev = out;
                mout_prev = mout;
            }
            match cmd.0 {
                0 => Some(vec![(out_prev, mout_prev)]),
                1 if n >= 2 => Some(vec![(oint, moint)]),
                2 if n >= 3 => Some(vec![(oii, moii)]),
                _ => None,
            }
        }
        "EWMA" | "EWMAQ" => {
            // value_0 = sample_0; value_i = value_(i-1) (1 - L) + sample_i L with L = 1 - (1 - s)^dt; (1 - s) is the f32 the stream holds
            let x = (1.0f32 - rat(&par["s"]) as f32) as f64;
            let mut v = hist[0].1;
            let mut m = hist[0].1.abs();
            for i in 1..n {
                let l = 1.0 - x.powf(dt(i));
                v = v * (1.0 - l) + hist[i].1 * l;
                m = m.max(hist[i].1.abs());
            }
            Some(vec![(v, m)])
        }
        "MA" | "MAQ" => {
            // time-weighted mean over the window ending at the newest sample; a sample holds from its predecessor's time to its own
            let now = hist[n - 1].0;
            let start = now - w_ns;
            let kept: Vec<&(i64, f64)> = hist.iter().filter(|h| h.0 > start).collect();
            if kept.is_empty() { return None; }
            let w = w_ns as f64;
            let (mut v, mut m) = (0.0, 0.0);
            let mut prev = start;
            for h in kept {
                let wt = (h.0 - prev) as f64;
                v += h.1 * wt / w;
                m += h.1.abs() * wt / w;
                prev = h.0;
            }
            Some(vec![(v, m)])
        }
        "AccToState" => {
            if n < 3 { return None; }
            let (mut vel, mut mvel, mut pos, mut mpos) = (0.0f64, 0.0f64, 0.0f64, 0.0f64);
            for i in 1..n {
                let add = (hist[i - 1].1 + hist[i].1) / 2.0 * dt(i);
                let madd = (hist[i - 1].1.abs() + hist[i].1.abs()) / 2.0 * dt(i);
                let (nv, nmv) = (vel + add, mvel + madd);
                if i >= 2 {
                    pos += (vel + nv) / 2.0 * dt(i);
                    mpos += (mvel + nmv) / 2.0 * dt(i);
                }
                vel = nv;
                mvel = nmv;
            }
            Some(vec![(pos, mpos), (vel, mvel), (hist[n - 1].1, 0.0)])
        }
        "VelToState" => {
            if n < 2 { return None; }
            let (mut pos, mut mpos) = (0.0, 0.0);
            for i in 1..n {
                pos += (hist[i - 1].1 + hist[i].1) / 2.0 * dt(i);
                mpos += (hist[i - 1].1.abs() + hist[i].1.abs()) / 2.0 * dt(i);
            }
            Some(vec![(pos, mpos), (hist[n - 1].1, 0.0), ((hist[n - 1].1 - hist[n - 2].1) / dt(n - 1), (hist[n - 1].1.abs() + hist[n - 2].1.abs()) / dt(n - 1))])
        }
        "PosToState" => {
            if n < 3 { return None; }
            let vel = |i: usize| (hist[i].1 - hist[i - 1].1) / dt(i);
            let mvel = |i: usize| (hist[i].1.abs() + hist[i - 1].1.abs()) / dt(i);
            Some(vec![(hist[n - 1].1, 0.0), (vel(n - 1), mvel(n - 1)), ((vel(n - 1) - vel(n - 2)) / dt(n - 1), (mvel(n - 1) + mvel(n - 2)) / dt(n - 1))])
        }
        _ => None,
    }
}
/// error and bound as integers for TLC, scaled so that the bound is about 1e6
fn scaled_err(err: f64, bound: f64) -> (i64, i64) {
    if !err.is_finite() || !bound.is_finite() {
        return (0, 1); // overflowed references decide nothing
    }
    if bound <= 0.0 {
        return (if err == 0.0 { 0 } else { 1 << 30 }, 1);
    }
    let k = 1.0e6 / bound;
    ((err.abs() * k).min(1.0e9) as i64, 1_000_000)
}
fn record(path: &str, seed: u64, n: usize, kinds: &[String], huge: bool) {
    use std::io::Write;
    let mut rng = Rng::new(seed);
    let mut f = std::io::BufWriter::new(std::fs::File::create(path).expect("create trace"));
    let conc = Conc { base: 0, tick_pow2: 0, scale_pow2: 0 };
    for h in 0..n {
        let kind: &str = if kinds.is_empty() { REC_KINDS[(h + rng.below(14) as usize) % 14] } else { kinds[(h + rng.below(kinds.len() as u64) as usize) % kinds.len()].as_str() };
        // tick 1 ns: arbitrary (odd) nanosecond intervals of at least a microsecond
        let tick: i64 = *rng.pick(&[1i64, 1_000, 1_000_000, 1_000_000_000, 60_000_000_000]);
        let base: i64 = rng.range(-(1 << 40), 1 << 40) / tick * tick;
        let shift: i64 = rng.range(-(1 << 45), 1 << 45) / tick * tick;
        let filt = matches!(kind, "EWMA" | "EWMAQ" | "MA" | "MAQ");
        let sk = if huge && !filt && h % 8 == 3 { 0 } else { rng.range(-3, 3) as i32 };      // (huge histories are not scaled: they would overflow)
        let scale = 2f32.powi(sk);
        let e0 = rng.range(-4, 8) as i32;
        // a sample value: filters stay within two binades (so that "between min and max up to rounding" is a statement about a few ulps)
        // with `huge` (structure-only validation, C05) every eighth history of a non-filter kind uses magnitudes around 1e38, where a
        // difference of two finite samples overflows: categories, error identities and twins must not depend on the values being tame
        let big = huge && !filt && h % 8 == 3;
        let val = |r: &mut Rng| -> f32 { if filt { ((1.0 + r.unit()) * 2f64.powi(e0 + (r.below(2) as i32))) as f32 } else if big { r.float(124, 127) } else { r.float(-6, 10) } };
        // windows from one tick (1 us .. 1 min) up to 24 hours; never more, so that window_ticks * tick cannot overflow i64
        let w_ticks: i64 = (match if filt && h % 6 == 1 { 3 } else { rng.below(4) } { 0 => 1, 1 => rng.range(2, 50), 2 => rng.range(50, 1 << 16), _ => rng.range(1 << 16, 1 << 28) }).min(86_400_000_000_000 / tick);
        let unit = match kind { "AccToState" => json!([1, -2]), "VelToState" => json!([1, -1]), "PosToState" => json!([1, 0]), _ => json!([rng.range(-3, 3), rng.range(-3, 3)]) };
        let cmd0 = (rng.below(3) as i64, if big { rng.float(124, 127) } else { rng.float(-4, 6) });
        let gains: Vec<Value> = (0..3).map(|_| json!({"kp": rng.float(-3, 3), "ki": rng.float(-3, 3), "kd": rng.float(-3, 3)})).collect();
        let mkpar = |scl: f32| -> Value {
            json!({"sp": (cmd0.1 * scl) as f64, "kp": gains[0]["kp"], "ki": gains[0]["ki"], "kd": gains[0]["kd"],
                   "cmd": {"k": cmd0.0, "v": (cmd0.1 * scl) as f64}, "gains": gains,
                   "s": ((rng.clone().unit() * 1000.0).round() / 1000.0), "w_ns": w_ticks * tick, "unit": unit, "x": 0})
        };
        let par = mkpar(1.0);
        let par_scaled = mkpar(scale);
        writeln!(f, "{}", json!({"k": "reset", "kind": kind, "cmdk": cmd0.0, "cmdkey": f32_key(cmd0.1), "w": w_ticks})).unwrap();
        let mut main = make(kind, &par, &conc, None);
        let mut cands: [Option<Machine>; 3] = [None, None, None]; // since_none, since_err, since_set
        let mut skip = make(kind, &par, &conc, None);
        let mut shifted = make(kind, &par, &conc, None);
        let mut scaled = make(kind, &par_scaled, &conc, None);
        let mut variant = match kind { "EWMA" => Some(make("EWMAQ", &par, &conc, None)), "MA" => Some(make("MAQ", &par, &conc, None)), _ => None };
        // C04: the same controller assembled from the crate's primitive streams
        let mut composite = if kind == "PID" { Some(make_composite(&par, &conc)) } else { None };
        let mut cur_cmd = (cmd0.0, cmd0.1);
        let mut now_ticks: i64 = 0;
        let mut hist: Vec<(i64, f64)> = vec![];   // present samples since the last reset of this kind (for the f64 reference)
        let resets_on_none = matches!(kind, "PID" | "Integral" | "Derivative" | "CmdPID");
        // every sixth history of a filter is LONG AND CLEAN: 64 present samples, no absent or error events, the largest window - so that
        // many more samples than any small constant share one window
        let clean = filt && h % 6 == 1;
        let len = if clean { 64 } else { 8 + rng.below(57) as usize };
        for _ in 0..len {
            // draw an event
            let roll = if clean { 20 } else { rng.below(100) };
            let is_cmdpid = kind == "CmdPID";
            let mut ev = if is_cmdpid && roll < 10 {
                // same command / other kind / other value / the NEIGHBOURING float of the current value (a different command all the same)
                let (k, v) = match rng.below(4) {
                    0 => cur_cmd,
                    1 => (rng.below(3) as i64, cur_cmd.1),
                    2 => (cur_cmd.0, rng.float(-4, 6)),
                    _ => (cur_cmd.0, f32::from_bits(cur_cmd.1.to_bits() + 1)),
                };
                json!({"c": "set", "k": k, "v": v as f64, "key": f32_key(v), "e": 0, "t": 0})
            } else if roll < 72 {
                let dt = if filt && rng.below(6) == 0 { 0 } else if tick == 1 { rng.range(1_000, 1 << 22) } else { match rng.below(3) { 0 => rng.range(1, 20), 1 => rng.range(20, 1 << 12), _ => rng.range(1 << 12, 1 << 20) } };
                now_ticks += dt;
                if is_cmdpid {
                    json!({"c": "some", "v": [rng.float(-4, 6) as f64, rng.float(-4, 6) as f64, rng.float(-4, 6) as f64], "e": 0, "t": now_ticks})
                } else {
                    json!({"c": "some", "v": val(&mut rng) as f64, "e": 0, "t": now_ticks})
                }
            } else if roll < 86 {
                json!({"c": "none", "e": 0, "t": 0})
            } else {
                json!({"c": "err", "e": 1 + rng.below(2), "t": 0})
            };
            if kind == "Freeze" {
                let cond = match rng.below(8) { 0 => json!({"c": "err", "e": 1 + rng.below(2)}), 1 => json!({"c": "none"}), 2 | 3 | 4 => json!({"c": "true"}), _ => json!({"c": "false"}) };
                ev = json!({"c": "fz", "cond": cond, "in": ev});
            }
            let inner = if kind == "Freeze" { ev["in"].clone() } else { ev.clone() };
            let cat = s(&inner, "c").to_string();
            let is_set = cat == "set";
            let t_real = Time(base + now_ticks * tick);
            let different = is_set && !(i(&inner, "k") == cur_cmd.0 && (inner["v"].as_f64().unwrap() as f32) == cur_cmd.1);
            // restart the candidate twins exactly at the events of their class (a fresh stream fed the events from here on)
            let fresh_cmd = Some(Command::new(pd(cur_cmd.0), cur_cmd.1));
            if cat == "none" { cands[0] = Some(make(kind, &par, &conc, if is_cmdpid { fresh_cmd } else { None })); }
            if cat == "err" { cands[1] = Some(make(kind, &par, &conc, if is_cmdpid { fresh_cmd } else { None })); }
            if different { cands[2] = Some(make(kind, &par, &conc, fresh_cmd)); }
            let scaled_ev = {
                let mut e2 = ev.clone();
                let tgt = if kind == "Freeze" { &mut e2["in"] } else { &mut e2 };
                if tgt["v"].is_array() {
                    for j in 0..3 { tgt["v"][j] = json!((tgt["v"][j].as_f64().unwrap() as f32 * scale) as f64); }
                } else if tgt["v"].is_number() {
                    tgt["v"] = json!((tgt["v"].as_f64().unwrap() as f32 * scale) as f64);
                }
                e2
            };
            let drive = |m: &mut Machine, e: &Value, t: Time| -> Result<NothingOrError<E>, String> {
                let inner = if kind == "Freeze" { &e["in"] } else { e };
                if s(inner, "c") == "set" {
                    let c = Command::new(pd(i(inner, "k")), inner["v"].as_f64().unwrap() as f32);
                    catch(|| (m.set)(c))
                } else {
                    (m.feed)(e, t, &conc);
                    catch(|| (m.update)())
                }
            };
            let r = drive(&mut main, &ev, t_real);
            for c in cands.iter_mut().flatten() { let _ = drive(c, &ev, t_real); }
            let skip_fed = cat != "none";
            if skip_fed { let _ = drive(&mut skip, &ev, t_real); }
            let _ = drive(&mut shifted, &ev, Time(t_real.0 + shift));
            let _ = drive(&mut scaled, &scaled_ev, t_real);
            if let Some(v) = variant.as_mut() { let _ = drive(v, &ev, t_real); }
            if let Some(c) = composite.as_mut() { let _ = drive(c, &ev, t_real); }
            if is_set { cur_cmd = (i(&inner, "k"), inner["v"].as_f64().unwrap() as f32); }
            let get = |m: &Machine| catch(|| (m.get)()).map(|x| x.0).unwrap_or(Obs::Panic("panic".into()));
            let o = get(&main);
            let o2 = get(&main);
            let cj = |c: &Option<Machine>| c.as_ref().map(|m| out_json(&get(m), base, tick, 1.0)).unwrap_or(json!({"c": "na", "e": 0, "t": 0, "keys": []}));
            // scale factor of the output relative to the input scale: linear in the values for every kind
            let evj = if kind == "Freeze" {
                json!({"c": inner["c"], "e": inner["e"], "t": inner["t"], "cond": ev["cond"]["c"], "ce": ev["cond"].get("e").cloned().unwrap_or(json!(0))})
            } else if is_set {
                json!({"c": "set", "e": 0, "t": 0, "k": inner["k"], "key": inner["key"]})
            } else {
                json!({"c": inner["c"], "e": inner["e"], "t": inner["t"]})
            };
            let inkey = if cat == "some" && inner["v"].is_number() { f32_key(inner["v"].as_f64().unwrap() as f32) } else { 0 };
            // the f64 reference over the samples since the last reset: error and bound per output component
            match cat.as_str() {
                "some" if inner["v"].is_number() => hist.push((t_real.0, inner["v"].as_f64().unwrap() as f32 as f64)),
                "some" if is_cmdpid => hist.push((t_real.0, inner["v"][cur_cmd.0 as usize].as_f64().unwrap() as f32 as f64)),
                "set" if different => hist.clear(),
                "none" if resets_on_none => hist.clear(),
                "err" => hist.clear(),
                _ => {}
            }
            let mut num: Vec<Value> = vec![];
            if cat == "some" && r.as_ref().map(|x| x.is_ok()).unwrap_or(false) {
                if let (Some(refv), Obs::Present { vals, .. }) = (reference(kind, &par, &hist, w_ticks * tick, cur_cmd), &o) {
                    let eps = f32::EPSILON as f64;
                    for (j, (rv, mag)) in refv.iter().enumerate() {
                        if j < vals.len() {
                            // (the command PID integrates its own output once or twice more: twice the allowance)
                            let allowance = (hist.len() as f64 / 3.0 + 3.0) * if is_cmdpid { 2.0 } else { 1.0 };
                            let bound = allowance * eps * (mag + rv.abs()) + f32::MIN_POSITIVE as f64;
                            let (e, b) = scaled_err(vals[j] as f64 - rv, bound);
                            num.push(json!({"err": e, "bound": b}));
                        }
                    }
                }
            }
            // the controller assembled from primitive streams: the same reference and the same allowance (another association of the
            // same formula may differ from the monolithic controller in the last bits; both must agree with the textbook value)
            let mut cnum: Vec<Value> = vec![];
            if let (Some(cm), "some", "PID") = (composite.as_ref(), cat.as_str(), kind) {
                if let (Some(refv), Obs::Present { vals, .. }) = (reference(kind, &par, &hist, w_ticks * tick, cur_cmd), &get(cm)) {
                    let eps = f32::EPSILON as f64;
                    let (rv, mag) = refv[0];
                    let bound = (hist.len() as f64 / 3.0 + 3.0) * 2.0 * eps * (mag + rv.abs()) + f32::MIN_POSITIVE as f64;
                    let (e, b) = scaled_err(vals[0] as f64 - rv, bound);
                    cnum.push(json!({"err": e, "bound": b}));
                }
            }
            writeln!(f, "{}", json!({
                "k": "ev", "ev": evj, "inkey": inkey, "num": num, "cnum": cnum, "ret": ret_json(&r), "out": out_json(&o, base, tick, 1.0), "get2": out_json(&o2, base, tick, 1.0),
                "since_none": cj(&cands[0]), "since_err": cj(&cands[1]), "since_set": cj(&cands[2]),
                "skip": out_json(&get(&skip), base, tick, 1.0),
                "shift": out_json(&get(&shifted), base + shift, tick, 1.0),
                "scale": out_json(&get(&scaled), base, tick, 1.0 / scale),
                "variant": variant.as_ref().map(|m| out_json(&get(m), base, tick, 1.0)).unwrap_or(json!({"c": "na", "e": 0, "t": 0, "keys": []})),
                "composite": composite.as_ref().map(|m| out_json(&get(m), base, tick, 1.0)).unwrap_or(json!({"c": "na", "e": 0, "t": 0, "keys": []})),
            })).unwrap();
            if r.is_err() { break; }
        }
    }
    f.flush().unwrap();
}

fn main() {
    silence_panics();
    let args: Vec<String> = std::env::args().collect();
    if args.len() >= 5 && args[1] == "record" {
        let kinds: Vec<String> = args.get(5).map(|k| k.split(',').map(|x| x.to_string()).collect()).unwrap_or_default();
        record(&args[2], args[3].parse().unwrap_or(1), args[4].parse().unwrap_or(100), &kinds, args.get(6).map(|x| x == "huge").unwrap_or(false));
        println!("SUMMARY {}", json!({"recorded": true}));
        return;
    }
    if args.len() < 4 || args[1] != "replay" {
        eprintln!("usage: streams replay <behaviours.ndjson> <concs.json> [--only <line>]");
        std::process::exit(2);
    }
    let lines = read_lines(&args[2]);
    let concs: Vec<Conc> = serde_json::from_str::<Value>(&std::fs::read_to_string(&args[3]).expect("concs"))
        .expect("concs json")
        .as_array()
        .unwrap()
        .iter()
        .map(Conc::from_json)
        .collect();
    let only: Option<usize> = args.iter().position(|a| a == "--only").map(|p| args[p + 1].parse().unwrap());
    // --structure: compare outcome category, error identity, timestamp, twins and purity, not the numbers
    let structure_only = args.iter().any(|a| a == "--structure");
    if args.iter().any(|a| a == "--any-error-id") {
        ANY_ERROR_ID.store(true, std::sync::atomic::Ordering::Relaxed);
    }
    // --skip-ewma-values: the build's power function is an approximation (micromath): EWMA numbers are not compared
    let skip_ewma = args.iter().any(|a| a == "--skip-ewma-values");
    let mut rep = Report::new();
    let mut seen = std::collections::HashSet::new();
    for (ln, l) in lines.iter().enumerate() {
        if let Some(o) = only {
            if o != ln {
                continue;
            }
        }
        let beh: Value = match serde_json::from_str(l) {
            Ok(v) => v,
            Err(e) => {
                eprintln!("bad behaviour line {ln}: {e}");
                std::process::exit(2)
            }
        };
        rep.count("behaviours", 1);
        {
            use std::hash::{Hash, Hasher};
            let mut h = std::collections::hash_map::DefaultHasher::new();
            l.hash(&mut h);
            if seen.insert(h.finish()) {
                rep.count("distinct", 1);
                if nontrivial(&beh) {
                    rep.count("nontrivial", 1);
                }
            }
        }
        for c in &concs {
            // an EWMA behaviour is only meaningful with a tick of one second (Pow exponent)
            if matches!(s(&beh, "kind"), "EWMA" | "EWMAQ") && c.tick_pow2 != 0 {
                continue;
            }
            replay(&beh, ln, c, &mut rep, structure_only || (skip_ewma && matches!(s(&beh, "kind"), "EWMA" | "EWMAQ")));
        }
    }
    rep.finish();
}
