//! Replay of behaviours emitted by TLC from spec/Datum.tla against rrtk's Datum<T> operators.
//!
//! usage: datum replay <behaviours.ndjson> <seed> [--only <line>]
//!
//! The specification predicts the timestamp after every operator form; the value is checked
//! against the payload type's own operator applied to the raw values (bit for bit).
use core::ops::*;
use rrtk::*;
use rrtk_conform::*;
use serde_json::{json, Value};

trait Bits: Copy {
    fn bits(&self) -> Vec<u32>;
    fn random(rng: &mut Rng) -> Self;
}
impl Bits for f32 {
    fn bits(&self) -> Vec<u32> {
        vec![self.to_bits()]
    }
    fn random(rng: &mut Rng) -> Self {
        rng.float(-8, 8)
    }
}
impl Bits for Quantity {
    fn bits(&self) -> Vec<u32> {
        vec![self.value.to_bits()]
    }
    fn random(rng: &mut Rng) -> Self {
        Quantity::new(rng.float(-8, 8), DIMENSIONLESS)
    }
}
impl Bits for State {
    fn bits(&self) -> Vec<u32> {
        vec![self.position.to_bits(), self.velocity.to_bits(), self.acceleration.to_bits()]
    }
    fn random(rng: &mut Rng) -> Self {
        State::new_raw(rng.float(-8, 8), rng.float(-8, 8), rng.float(-8, 8))
    }
}
impl Bits for Command {
    fn bits(&self) -> Vec<u32> {
        match self {
            Command::Position(x) => vec![0, x.to_bits()],
            Command::Velocity(x) => vec![1, x.to_bits()],
            Command::Acceleration(x) => vec![2, x.to_bits()],
        }
    }
    fn random(rng: &mut Rng) -> Self {
        // one kind throughout a behaviour (adding commands of different kinds panics by design)
        Command::Velocity(rng.float(-8, 8))
    }
}
impl Bits for bool {
    fn bits(&self) -> Vec<u32> {
        vec![*self as u32]
    }
    fn random(rng: &mut Rng) -> Self {
        rng.next() & 1 == 1
    }
}

struct StepCtx<'a> {
    op: &'a str,
    operand: &'a str,
    assign: bool,
    t2: Time,
}

/// add / sub with a datum or a bare value of the same type (all numeric payloads)
fn addsub<T>(c: &StepCtx, d: Datum<T>, v2: T) -> Option<(Datum<T>, T)>
where
    T: Copy + Add<Output = T> + Sub<Output = T> + AddAssign + SubAssign,
{
    let o = Datum::new(c.t2, v2);
    let mut m = d;
    Some(match (c.op, c.operand, c.assign) {
        ("add", "datum", false) => (d + o, d.value + v2),
        ("sub", "datum", false) => (d - o, d.value - v2),
        ("add", "scalar", false) => (d + v2, d.value + v2),
        ("sub", "scalar", false) => (d - v2, d.value - v2),
        ("add", "datum", true) => {
            m += o;
            (m, d.value + v2)
        }
        ("sub", "datum", true) => {
            m -= o;
            (m, d.value - v2)
        }
        ("add", "scalar", true) => {
            m += v2;
            (m, d.value + v2)
        }
        ("sub", "scalar", true) => {
            m -= v2;
            (m, d.value - v2)
        }
        _ => return None,
    })
}
/// mul / div with a datum or bare value of the same type (f32, Quantity)
fn muldiv_same<T>(c: &StepCtx, d: Datum<T>, v2: T) -> Option<(Datum<T>, T)>
where
    T: Copy + Mul<Output = T> + Div<Output = T> + MulAssign + DivAssign,
{
    let o = Datum::new(c.t2, v2);
    let mut m = d;
    Some(match (c.op, c.operand, c.assign) {
        ("mul", "datum", false) => (d * o, d.value * v2),
        ("div", "datum", false) => (d / o, d.value / v2),
        ("mul", "scalar", false) => (d * v2, d.value * v2),
        ("div", "scalar", false) => (d / v2, d.value / v2),
        ("mul", "datum", true) => {
            m *= o;
            (m, d.value * v2)
        }
        ("div", "datum", true) => {
            m /= o;
            (m, d.value / v2)
        }
        ("mul", "scalar", true) => {
            m *= v2;
            (m, d.value * v2)
        }
        ("div", "scalar", true) => {
            m /= v2;
            (m, d.value / v2)
        }
        _ => return None,
    })
}
/// State / Command special cases: mul / div by Datum<f32> or f32
macro_rules! muldiv_f32 {
    ($c:expr, $d:expr, $f:expr) => {{
        let c: &StepCtx = $c;
        let d = $d;
        let f: f32 = $f;
        let o = Datum::new(c.t2, f);
        let mut m = d;
        match (c.op, c.operand, c.assign) {
            ("mul", "datumf32", false) => Some((d * o, d.value * f)),
            ("div", "datumf32", false) => Some((d / o, d.value / f)),
            ("mul", "f32", false) => Some((d * f, d.value * f)),
            ("div", "f32", false) => Some((d / f, d.value / f)),
            ("mul", "datumf32", true) => {
                m *= o;
                Some((m, d.value * f))
            }
            ("div", "datumf32", true) => {
                m /= o;
                Some((m, d.value / f))
            }
            ("mul", "f32", true) => {
                m *= f;
                Some((m, d.value * f))
            }
            ("div", "f32", true) => {
                m /= f;
                Some((m, d.value / f))
            }
            _ => None,
        }
    }};
}

fn run<T: Bits + 'static>(
    steps: &[Value],
    times: &[i64; 6],
    rng: &mut Rng,
    apply: &dyn Fn(&StepCtx, Datum<T>, T, f32) -> Option<(Datum<T>, T)>,
) -> Option<(usize, String, Value, Value)> {
    let tm = |r: i64| Time(times[r as usize]);
    let mut reg = Datum::new(tm(i(&steps[0], "t")), T::random(rng));
    for (idx, st) in steps.iter().enumerate().skip(1) {
        let op = s(st, "op");
        let operand = s(st, "operand");
        let t2r = i(st, "t2");
        let t2 = if t2r == 0 { Time(0) } else { tm(t2r) };
        let v2 = T::random(rng);
        let f = rng.float(-4, 4);
        let exp_t = tm(i(st, "t"));
        let before = reg;
        let bad = |what: &str, exp: Value, got: Value| Some((idx, what.to_string(), exp, got));
        match op {
            "replace" => {
                let exp_rep = st["replaced"].as_bool().unwrap();
                let other = Datum::new(t2, v2);
                let (got_rep, after): (bool, Datum<T>) = match operand {
                    "datum" => {
                        let mut m = reg;
                        let r = m.replace_if_older_than(other);
                        (r, m)
                    }
                    "option" => {
                        let mut m = Some(reg);
                        let r = m.replace_if_none_or_older_than(other);
                        // an empty slot is always filled
                        let mut e: Option<Datum<T>> = None;
                        let re = e.replace_if_none_or_older_than(other);
                        let mut e2: Option<Datum<T>> = None;
                        let re2 = e2.replace_if_none_or_older_than_option(Some(other));
                        let filled = |x: &Option<Datum<T>>| x.map(|d| d.time == other.time && d.value.bits() == other.value.bits()).unwrap_or(false);
                        if !re || !re2 || !filled(&e) || !filled(&e2) {
                            return bad("replace_if_none_or_older_than on an empty slot must replace and report true", json!(true), json!([re, re2]));
                        }
                        let mut m2 = Some(reg);
                        let r2 = m2.replace_if_none_or_older_than_option(Some(other));
                        if r2 != r || m2.map(|d| d.time) != m.map(|d| d.time) {
                            return bad("replace_if_none_or_older_than_option(Some(x)) differs from replace_if_none_or_older_than(x)", json!(r), json!(r2));
                        }
                        (r, m.unwrap())
                    }
                    _ => {
                        let mut m = Some(reg);
                        let r = m.replace_if_none_or_older_than_option(None);
                        (r, m.unwrap())
                    }
                };
                let exp_val = if exp_rep { other.value } else { reg.value };
                if got_rep != exp_rep || after.time != exp_t || after.value.bits() != exp_val.bits() {
                    return bad(
                        &format!("replace helper ({operand}): replaced flag / resulting datum"),
                        json!({"replaced": exp_rep, "t_ns": exp_t.0}),
                        json!({"replaced": got_rep, "t_ns": after.time.0, "self_t": before.time.0, "other_t": t2.0}),
                    );
                }
                reg = after;
            }
            "latest" => {
                let other = Datum::new(t2, v2);
                let got = if operand == "first" { latest(reg, other) } else { latest(other, reg) };
                let exp_val = if s(st, "picked") == "reg" { reg.value } else { other.value };
                if got.time != exp_t || got.value.bits() != exp_val.bits() {
                    return bad("latest()", json!({"t_ns": exp_t.0, "picked": st["picked"]}), json!({"t_ns": got.time.0, "a_t": before.time.0, "b_t": t2.0}));
                }
                reg = got;
            }
            _ => {
                let c = StepCtx { op, operand, assign: st["assign"].as_bool().unwrap(), t2 };
                let r = catch(|| apply(&c, reg, v2, f));
                let (got, exp_val) = match r {
                    Ok(Some(x)) => x,
                    Ok(None) => {
                        eprintln!("form not implemented in the harness: {st}");
                        std::process::exit(2)
                    }
                    Err(p) => return bad("operator panicked", json!("no panic"), json!(p)),
                };
                if got.time != exp_t {
                    return bad(
                        &format!("timestamp after {}{} with {}", op, if c.assign { "-assign" } else { "" }, operand),
                        json!({"t_ns": exp_t.0}),
                        json!({"t_ns": got.time.0, "self_t": before.time.0, "other_t": t2.0}),
                    );
                }
                let same = got.value.bits().iter().zip(exp_val.bits().iter()).all(|(a, b)| a == b || (f32::from_bits(*a).is_nan() && f32::from_bits(*b).is_nan()));
                if !same {
                    return bad(&format!("value after {op} with {operand}"), json!(exp_val.bits()), json!(got.value.bits()));
                }
                reg = got;
            }
        }
    }
    None
}

fn main() {
    silence_panics();
    let args: Vec<String> = std::env::args().collect();
    if args.len() < 4 || args[1] != "replay" {
        eprintln!("usage: datum replay <behaviours.ndjson> <seed> [--only <line>]");
        std::process::exit(2);
    }
    let lines = read_lines(&args[2]);
    let seed: u64 = args[3].parse().unwrap_or(1);
    let only: Option<usize> = args.iter().position(|a| a == "--only").map(|p| args[p + 1].parse().unwrap());
    let mut rng = Rng::new(seed);
    let mut maps: Vec<[i64; 6]> = vec![
        [0, i64::MIN, i64::MIN + 1, -1, 0, i64::MAX],
        [0, -2, -1, 0, 1, 2],
        [0, 1, 2, 3, 4, 5],
        [0, i64::MAX - 4, i64::MAX - 3, i64::MAX - 2, i64::MAX - 1, i64::MAX],
        [0, -3_000_000_000, -1, 1, 1_000_000_000, 1 << 62],
    ];
    let mut r5: Vec<i64> = (0..5).map(|_| rng.next() as i64).collect();
    r5.sort();
    r5.dedup();
    if r5.len() == 5 {
        maps.push([0, r5[0], r5[1], r5[2], r5[3], r5[4]]);
    }
    let mut rep = Report::new();
    for (ln, l) in lines.iter().enumerate() {
        if let Some(o) = only {
            if o != ln {
                continue;
            }
        }
        let beh: Value = serde_json::from_str(l).unwrap_or_else(|e| {
            eprintln!("bad line {ln}: {e}");
            std::process::exit(2)
        });
        rep.count("behaviours", 1);
        let steps = beh["steps"].as_array().unwrap();
        if steps.iter().skip(1).any(|st| i(st, "t2") != 0 && i(st, "t2") != i(&steps[0], "t")) {
            rep.count("nontrivial", 1);
        }
        for m in &maps {
            rep.count("replays", 1);
            let res = match s(&beh, "payload") {
                "f32" => run::<f32>(steps, m, &mut rng, &|c, d, v, _f| addsub(c, d, v).or_else(|| muldiv_same(c, d, v)).or_else(|| if c.op == "neg" { Some((-d, -d.value)) } else { None })),
                "quantity" => run::<Quantity>(steps, m, &mut rng, &|c, d, v, _f| addsub(c, d, v).or_else(|| muldiv_same(c, d, v)).or_else(|| if c.op == "neg" { Some((-d, -d.value)) } else { None })),
                "state" => run::<State>(steps, m, &mut rng, &|c, d, v, f| addsub(c, d, v).or_else(|| muldiv_f32!(c, d, f)).or_else(|| if c.op == "neg" { Some((-d, -d.value)) } else { None })),
                "command" => run::<Command>(steps, m, &mut rng, &|c, d, v, f| addsub(c, d, v).or_else(|| muldiv_f32!(c, d, f)).or_else(|| if c.op == "neg" { Some((-d, -d.value)) } else { None })),
                "bool" => run::<bool>(steps, m, &mut rng, &|c, d, _v, _f| if c.op == "not" { Some((!d, !d.value)) } else { None }),
                p => {
                    eprintln!("unknown payload {p}");
                    std::process::exit(2)
                }
            };
            if let Some((step, what, exp, got)) = res {
                rep.mismatch(json!({"line": ln, "payload": beh["payload"], "step": step, "what": what, "exp": exp, "got": got, "map": m.to_vec()}));
                break;
            }
        }
    }
    rep.finish();
}
