//! C14: replay of the cases emitted by TLC from spec/Kinematics.tla against rrtk's State and Command.
//! usage: kin replay <cases.ndjson> <seed> [--only <line>]
use rrtk::*;
use rrtk_conform::*;
use serde_json::{json, Value};

#[derive(Clone, Copy)]
struct C {
    tick_pow2: i32,
    scale_pow2: i32,
}
impl C {
    fn tau(&self) -> f64 {
        2f64.powi(self.tick_pow2)
    }
    fn sc(&self) -> f64 {
        2f64.powi(self.scale_pow2)
    }
    fn tick_ns(&self) -> i64 {
        if self.tick_pow2 >= 0 { 1_000_000_000i64 << self.tick_pow2 } else { 1_000_000_000i64 >> (-self.tick_pow2) }
    }
    /// a state given in tick units -> real units (velocity / tau, acceleration / tau^2), scaled
    fn state(&self, s: &Value) -> State {
        let t = self.tau();
        State::new_raw((rat(&s[0]) * self.sc()) as f32, (rat(&s[1]) * self.sc() / t) as f32, (rat(&s[2]) * self.sc() / (t * t)) as f32)
    }
    fn exp_state(&self, s: &Value) -> [f64; 3] {
        let t = self.tau();
        [rat(&s[0]) * self.sc(), rat(&s[1]) * self.sc() / t, rat(&s[2]) * self.sc() / (t * t)]
    }
    fn comp(&self, which: i64, x: &Value) -> f64 {
        rat(x) * self.sc() / self.tau().powi(which as i32)
    }
    fn json(&self) -> Value {
        json!({"tick_pow2": self.tick_pow2, "scale_pow2": self.scale_pow2})
    }
}
fn pd(k: i64) -> PositionDerivative {
    match k {
        0 => PositionDerivative::Position,
        1 => PositionDerivative::Velocity,
        _ => PositionDerivative::Acceleration,
    }
}
fn kind(c: Command) -> i64 {
    match PositionDerivative::from(c) {
        PositionDerivative::Position => 0,
        PositionDerivative::Velocity => 1,
        PositionDerivative::Acceleration => 2,
    }
}
fn unit(u: &Value) -> Unit {
    Unit::new(u[0].as_i64().unwrap() as i8, u[1].as_i64().unwrap() as i8)
}
fn st_close(s: State, e: [f64; 3]) -> bool {
    // each component relative to the magnitudes that were combined to produce it
    let m = e.iter().fold(0f64, |a, b| a.max(b.abs()));
    close(s.position, e[0], m) && close(s.velocity, e[1], m) && close(s.acceleration, e[2], m)
}
fn st_json(s: State) -> Value {
    json!([s.position, s.velocity, s.acceleration])
}
fn exact_eq(s: State, t: State) -> bool {
    s.position.to_bits() == t.position.to_bits() && s.velocity.to_bits() == t.velocity.to_bits() && s.acceleration.to_bits() == t.acceleration.to_bits()
}

type Bad = Option<(String, Value, Value)>;

fn update_case(c: &Value, k: &C) -> Bad {
    let mut s = k.state(&c["s"]);
    let before = s;
    let dt = i(c, "dt");
    if let Err(p) = catch(|| s.update(Time(dt * k.tick_ns()))) {
        return Some(("State::update panicked".into(), json!(null), json!(p)));
    }
    // in real units the three components live on different scales: compare component-wise with the terms' magnitudes
    let e = k.exp_state(&c["res"]);
    let t = k.tau();
    let terms_p = [before.position as f64, before.velocity as f64 * dt as f64 * t, before.acceleration as f64 * (dt as f64 * t).powi(2) / 2.0];
    let terms_v = [before.velocity as f64, before.acceleration as f64 * dt as f64 * t];
    let mp = terms_p.iter().fold(0f64, |a, b| a.max(b.abs()));
    let mv = terms_v.iter().fold(0f64, |a, b| a.max(b.abs()));
    if !(close(s.position, e[0], mp) && close(s.velocity, e[1], mv) && s.acceleration.to_bits() == before.acceleration.to_bits()) {
        return Some((format!("State::update({} ticks)", dt), json!(e), st_json(s)));
    }
    if dt == 0 && !exact_eq(s, before) {
        return Some(("State::update(0) must be the identity".into(), st_json(before), st_json(s)));
    }
    None
}

fn setter_case(c: &Value, k: &C) -> Bad {
    let mut s = k.state(&c["s"]);
    let before = s;
    let which = i(c, "which");
    let x = k.comp(which, &c["x"]) as f32;
    let ok = c["ok"].as_bool().unwrap();
    let raw = c["raw"].as_bool().unwrap();
    let r: Result<Result<(), ()>, String> = catch(|| {
        if raw {
            match which {
                0 => s.set_constant_position_raw(x),
                1 => s.set_constant_velocity_raw(x),
                _ => s.set_constant_acceleration_raw(x),
            }
            Ok(())
        } else {
            let q = Quantity::new(x, unit(&c["u"]));
            match which {
                0 => s.set_constant_position(q),
                1 => s.set_constant_velocity(q),
                _ => s.set_constant_acceleration(q),
            }
        }
    });
    match r {
        Err(p) => return Some(("setter panicked".into(), json!(null), json!(p))),
        Ok(res) => {
            if res.is_ok() != ok {
                return Some(("setter accepted / rejected the argument".into(), json!(ok), json!(res.is_ok())));
            }
        }
    }
    if !ok {
        if !exact_eq(s, before) {
            return Some(("a rejected setter must leave the state untouched".into(), st_json(before), st_json(s)));
        }
        return None;
    }
    let exp = match which {
        0 => State::new_raw(x, 0.0, 0.0),
        1 => State::new_raw(before.position, x, 0.0),
        _ => State::new_raw(before.position, before.velocity, x),
    };
    if !exact_eq(s, exp) || !st_close(s, k.exp_state(&c["res"])) {
        return Some(("state after the setter".into(), st_json(exp), st_json(s)));
    }
    None
}

fn cmd_case(c: &Value, k: &C) -> Bad {
    match s(c, "form") {
        "from_state" => {
            let st = k.state(&c["s"]);
            let got = Command::from(st);
            let ek = i(&c["res"], "k");
            let ev = match ek { 0 => st.position, 1 => st.velocity, _ => st.acceleration };
            if kind(got) != ek || f32::from(got).to_bits() != ev.to_bits() {
                return Some(("Command::from(State) must be the lowest non-zero derivative".into(), json!({"k": ek, "v": ev}), json!({"k": kind(got), "v": f32::from(got), "state": st_json(st)})));
            }
            None
        }
        "accessors" => {
            let kk = i(&c["c"], "k");
            let v = (rat(&c["c"]["v"]) * k.sc()) as f32;
            let cmd = Command::new(pd(kk), v);
            let direct = match kk { 0 => Command::Position(v), 1 => Command::Velocity(v), _ => Command::Acceleration(v) };
            if cmd != direct || kind(cmd) != kk || f32::from(cmd).to_bits() != v.to_bits() {
                return Some(("Command::new / kind / raw value".into(), json!({"k": kk, "v": v}), json!({"k": kind(cmd), "v": f32::from(cmd)})));
            }
            let opt = |o: Option<Quantity>| o.map(|q| q.value);
            let exp_pos = c["pos"].as_array().unwrap().first().map(|_| v);
            let exp_vel = c["vel"].as_array().unwrap().first().map(|_| if kk == 1 { v } else { 0.0 });
            let exp_acc = if kk == 2 { v } else { 0.0 };
            if opt(cmd.get_position()) != exp_pos || opt(cmd.get_velocity()) != exp_vel || cmd.get_acceleration().value != exp_acc {
                return Some(("per-derivative accessors of a command".into(), json!({"pos": exp_pos, "vel": exp_vel, "acc": exp_acc}),
                             json!({"pos": opt(cmd.get_position()), "vel": opt(cmd.get_velocity()), "acc": cmd.get_acceleration().value})));
            }
            let units_ok = cmd.get_position().map(|q| unit_is(q.unit, 1, 0)).unwrap_or(true)
                && cmd.get_velocity().map(|q| unit_is(q.unit, 1, -1)).unwrap_or(true)
                && unit_is(cmd.get_acceleration().unit, 1, -2);
            let q = Quantity::from(cmd);
            if !units_ok || !unit_is(q.unit, 1, -kk) || q.value.to_bits() != v.to_bits() {
                return Some(("units of the command accessors / Quantity::from(Command)".into(), c["unit"].clone(), json!(unit_exps(q.unit))));
            }
            #[cfg(feature = "dimcheck")]
            {
                if Command::try_from(q) != Ok(cmd) {
                    return Some(("Command -> Quantity -> Command round trip".into(), json!(format!("{cmd:?}")), json!(format!("{:?}", Command::try_from(q)))));
                }
            }
            None
        }
        "state_getters" => {
            let st = k.state(&c["s"]);
            let (p, v, a) = (st.get_position(), st.get_velocity(), st.get_acceleration());
            let ok = p.value.to_bits() == st.position.to_bits() && v.value.to_bits() == st.velocity.to_bits() && a.value.to_bits() == st.acceleration.to_bits()
                && unit_is(p.unit, 1, 0) && unit_is(v.unit, 1, -1) && unit_is(a.unit, 1, -2)
                && (0..3).all(|j| { let g = st.get_value(pd(j)); g.value.to_bits() == [p, v, a][j as usize].value.to_bits() && unit_is(g.unit, 1, -j) });
            let round = State::new(p, v, a);
            if !ok || !exact_eq(round, st) {
                return Some(("State getters / State::new round trip".into(), st_json(st), st_json(round)));
            }
            None
        }
        _ => {
            // State::new with one wrongly dimensioned argument panics iff checking is on
            let which = i(c, "which");
            let u = unit(&c["u"]);
            let mk = |j: i64| if j == which { Quantity::new(1.0, u) } else { Quantity::new(1.0, Unit::from(pd(j))) };
            let r = catch(|| State::new(mk(0), mk(1), mk(2)));
            if r.is_err() != c["panic"].as_bool().unwrap() {
                return Some(("State::new panics iff an argument is wrongly dimensioned".into(), c["panic"].clone(), json!(r.is_err())));
            }
            None
        }
    }
}

fn arith_case(c: &Value, k: &C) -> Bad {
    let form = s(c, "form");
    let asg = c["assign"].as_bool().unwrap();
    if s(c, "on") == "state" {
        // arithmetic is component-wise on whatever the components are: use the tick-free reading
        let k1 = C { tick_pow2: 0, scale_pow2: k.scale_pow2 };
        let a = k1.state(&c["a"]);
        let r: Result<State, String> = catch(|| match form {
            "add" | "sub" => {
                let b = k1.state(&c["b"]);
                if asg {
                    let mut m = a;
                    if form == "add" { m += b } else { m -= b }
                    m
                } else if form == "add" { a + b } else { a - b }
            }
            "mul" | "div" => {
                let f = rat(&c["r"]) as f32;
                if asg {
                    let mut m = a;
                    if form == "mul" { m *= f } else { m /= f }
                    m
                } else if form == "mul" { a * f } else { a / f }
            }
            _ => -a,
        });
        return match r {
            Err(p) => Some(("State arithmetic panicked".into(), json!(null), json!(p))),
            Ok(g) if !st_close(g, k1.exp_state(&c["res"])) => Some((format!("State {form}"), json!(k1.exp_state(&c["res"])), st_json(g))),
            _ => None,
        };
    }
    let mkc = |v: &Value| Command::new(pd(i(v, "k")), (rat(&v["v"]) * k.sc()) as f32);
    let a = mkc(&c["a"]);
    let r: Result<Command, String> = catch(|| match form {
        "add" | "sub" => {
            let b = mkc(&c["b"]);
            if asg {
                let mut m = a;
                if form == "add" { m += b } else { m -= b }
                m
            } else if form == "add" { a + b } else { a - b }
        }
        "mul" | "div" => {
            let f = rat(&c["r"]) as f32;
            if asg {
                let mut m = a;
                if form == "mul" { m *= f } else { m /= f }
                m
            } else if form == "mul" { a * f } else { a / f }
        }
        _ => -a,
    });
    let exp_panic = c["panic"].as_bool().unwrap();
    match r {
        Err(_) if exp_panic => None,
        Err(p) => Some(("Command arithmetic panicked".into(), json!(null), json!(p))),
        Ok(g) if exp_panic => Some(("adding / subtracting commands of different kinds must panic".into(), json!("panic"), json!(format!("{g:?}")))),
        Ok(g) => {
            let ev = rat(&c["res"]["v"]) * k.sc();
            if kind(g) != i(&c["res"], "k") || !close(f32::from(g), ev, ev.abs()) {
                Some((format!("Command {form}"), json!({"k": c["res"]["k"], "v": ev}), json!({"k": kind(g), "v": f32::from(g)})))
            } else {
                None
            }
        }
    }
}

fn chain_case(c: &Value, k: &C) -> Bad {
    let mut st = k.state(&c["s"]);
    let which = i(c, "which");
    let x = k.comp(which, &c["x"]) as f32;
    let q = Quantity::new(x, Unit::from(pd(which)));
    let r = match which { 0 => st.set_constant_position(q), 1 => st.set_constant_velocity(q), _ => st.set_constant_acceleration(q) };
    if r.is_err() {
        return Some(("a correctly dimensioned setter was rejected".into(), json!("Ok"), json!("Err")));
    }
    if !st_close(st, k.exp_state(&c["s1"])) {
        return Some(("state after the setter".into(), json!(k.exp_state(&c["s1"])), st_json(st)));
    }
    st.update(Time(i(c, "dt") * k.tick_ns()));
    let e = k.exp_state(&c["s2"]);
    // the three components are on different scales in real units; compare each against the largest term feeding it
    let before = k.exp_state(&c["s1"]);
    let dts = i(c, "dt") as f64 * k.tau();
    let mp = before[0].abs().max((before[1] * dts).abs()).max((before[2] * dts * dts / 2.0).abs());
    let mv = before[1].abs().max((before[2] * dts).abs());
    if !(close(st.position, e[0], mp) && close(st.velocity, e[1], mv) && close(st.acceleration, e[2], e[2].abs())) {
        return Some(("state after setter and update".into(), json!(e), st_json(st)));
    }
    let cmd = Command::from(st);
    if kind(cmd) != i(&c["cmd"], "k") {
        return Some(("command built from the state after setter and update".into(), c["cmd"].clone(), json!({"k": kind(cmd), "v": f32::from(cmd)})));
    }
    None
}


/// recorder for spec/NumTrace.tla: State::update on arbitrary floats and arbitrary (odd) nanosecond intervals against the textbook formula in f64
fn record(path: &str, seed: u64, n: usize) {
    use std::io::Write;
    let mut rng = Rng::new(seed);
    let mut f = std::io::BufWriter::new(std::fs::File::create(path).expect("create trace"));
    let eps = f32::EPSILON as f64;
    let emit = |f: &mut std::io::BufWriter<std::fs::File>, what: &str, got: f32, exp: f64, mag: f64| {
        let bound = 8.0 * eps * mag + f32::MIN_POSITIVE as f64;
        let (e, b) = if !(exp.is_finite() && bound.is_finite()) { (0i64, 1i64) } else { ((((got as f64 - exp).abs() / bound) * 1.0e6).min(1.0e9) as i64, 1_000_000i64) };
        writeln!(f, "{}", json!({"k": "b", "what": what, "err": e, "bound": b})).unwrap();
    };
    for k in 0..n {
        // position zero in half of the cases (so that the travelled distance is not hidden behind a large position)
        let p = if k % 2 == 0 { 0.0 } else { rng.float(-6, 14) };
        let v = rng.float(-8, 30);
        let a = if k % 3 == 0 { 0.0 } else { rng.float(-8, 30) };
        // intervals: odd and even nanosecond counts from 1 ns to 1e5 s, either sign
        let mag = match rng.below(4) { 0 => rng.range(1, 2000), 1 => rng.range(2000, 10_000_000), 2 => rng.range(10_000_000, 100_000_000_000), _ => rng.range(100_000_000_000, 100_000_000_000_000) };
        let dt = if rng.next() & 1 == 0 { mag } else { -mag };
        let mut s = State::new_raw(p, v, a);
        s.update(Time(dt));
        let (pf, vf, af, t) = (p as f64, v as f64, a as f64, dt as f64 / 1e9);
        emit(&mut f, "velocity after update: v + a dt", s.velocity, vf + af * t, vf.abs() + (af * t).abs());
        emit(&mut f, "position after update: p + v dt + a dt^2 / 2", s.position, pf + vf * t + af * t * t / 2.0, pf.abs() + (vf * t).abs() + (af * t * t / 2.0).abs());
        emit(&mut f, "acceleration unchanged by update", s.acceleration, af, 0.0);
    }
    f.flush().unwrap();
}

fn main() {
    silence_panics();
    let args: Vec<String> = std::env::args().collect();
    if args.len() >= 5 && args[1] == "record" {
        record(&args[2], args[3].parse().unwrap_or(1), args[4].parse().unwrap_or(1000));
        println!("SUMMARY {}", json!({"recorded": true}));
        return;
    }
    if args.len() < 4 || args[1] != "replay" {
        eprintln!("usage: kin replay <cases.ndjson> <seed> [--only <line>]");
        std::process::exit(2);
    }
    let lines = read_lines(&args[2]);
    let only: Option<usize> = args.iter().position(|a| a == "--only").map(|p| args[p + 1].parse().unwrap());
    let mut rng = Rng::new(args[3].parse().unwrap_or(1));
    let mut concs = vec![
        C { tick_pow2: 0, scale_pow2: 0 },
        C { tick_pow2: -3, scale_pow2: 2 },
        C { tick_pow2: 4, scale_pow2: -3 },
        C { tick_pow2: 0, scale_pow2: -30 },   // values around 1e-9: must still count as non-zero
        C { tick_pow2: 0, scale_pow2: -140 },  // subnormal values
        C { tick_pow2: 1, scale_pow2: 60 },
    ];
    concs.push(C { tick_pow2: rng.range(-6, 6) as i32, scale_pow2: rng.range(-40, 40) as i32 });
    let mut rep = Report::new();
    for (ln, l) in lines.iter().enumerate() {
        if let Some(o) = only {
            if o != ln {
                continue;
            }
        }
        let rec: Value = serde_json::from_str(l).unwrap_or_else(|e| {
            eprintln!("bad line {ln}: {e}");
            std::process::exit(2)
        });
        if rec["dimcheck"].as_bool() != Some(DIMCHECK) {
            eprintln!("cases were generated for DimCheck={} but the harness was built with {}", rec["dimcheck"], DIMCHECK);
            std::process::exit(2);
        }
        let c = &rec["case"];
        rep.count("behaviours", 1);
        rep.count("nontrivial", 1);
        for k in &concs {
            // subnormal scale: only the exactness clauses (from_state, accessors, setters) are meaningful
            if k.scale_pow2 < -100 && matches!(s(c, "family"), "update" | "arith" | "chain") {
                continue;
            }
            rep.count("replays", 1);
            let r = match s(c, "family") {
                "update" => update_case(c, k),
                "setter" => setter_case(c, k),
                "cmd" => cmd_case(c, k),
                "arith" => arith_case(c, k),
                _ => chain_case(c, k),
            };
            if let Some((what, exp, got)) = r {
                rep.mismatch(json!({"line": ln, "family": c["family"], "what": what, "exp": exp, "got": got, "conc": k.json()}));
                break;
            }
        }
    }
    rep.finish();
}
