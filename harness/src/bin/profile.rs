//! C06 / C07: MotionProfile.
//!   profile replay <cases.ndjson> <seed> [--mode c06|c07|all] [--only <line>]
//!       moves emitted by TLC from spec/MotionProfile.tla (exact rational reference trapezoid)
//!   profile record <out.ndjson> <seed> <n>
//!       random constructor arguments, accessor observations for spec/ProfileTrace.tla
use rrtk::*;
use rrtk_conform::*;
use serde_json::{json, Value};
use std::io::Write;

#[derive(Clone, Copy)]
struct C {
    tick_pow2: i32,
    scale_pow2: i32,
}
impl C {
    fn tau(&self) -> f64 {
        2f64.powi(self.tick_pow2)
    }
    fn sc(&self) -> f64 {
        2f64.powi(self.scale_pow2)
    }
    fn tick_ns(&self) -> i64 {
        if self.tick_pow2 >= 0 { 1_000_000_000i64 << self.tick_pow2 } else { 1_000_000_000i64 >> (-self.tick_pow2) }
    }
    fn pos(&self, r: &Value) -> f64 {
        rat(r) * self.sc()
    }
    fn vel(&self, r: &Value) -> f64 {
        rat(r) * self.sc() / self.tau()
    }
    fn acc(&self, r: &Value) -> f64 {
        rat(r) * self.sc() / (self.tau() * self.tau())
    }
    fn json(&self) -> Value {
        json!({"tick_pow2": self.tick_pow2, "scale_pow2": self.scale_pow2})
    }
}
fn piece_idx(p: MotionProfilePiece) -> i64 {
    match p {
        MotionProfilePiece::BeforeStart => 0,
        MotionProfilePiece::InitialAcceleration => 1,
        MotionProfilePiece::ConstantVelocity => 2,
        MotionProfilePiece::EndAcceleration => 3,
        MotionProfilePiece::Complete => 4,
    }
}
fn mode_idx(m: Option<PositionDerivative>) -> i64 {
    match m {
        None => -1,
        Some(PositionDerivative::Position) => 0,
        Some(PositionDerivative::Velocity) => 1,
        Some(PositionDerivative::Acceleration) => 2,
    }
}
fn cmd_kind(c: Command) -> i64 {
    mode_idx(Some(PositionDerivative::from(c)))
}

struct ObsQ {
    piece: i64,
    mode: i64,
    acc: Option<Quantity>,
    vel: Option<Quantity>,
    pos: Option<Quantity>,
    hist: Option<Datum<Command>>,
}
fn observe(p: &MotionProfile, t: Time) -> Result<ObsQ, String> {
    catch(|| ObsQ {
        piece: piece_idx(p.get_piece(t)),
        mode: mode_idx(p.get_mode(t)),
        acc: p.get_acceleration(t),
        vel: p.get_velocity(t),
        pos: p.get_position(t),
        hist: History::<Command, E>::get(p, t),
    })
}
/// C06: the history is a command of exactly the mode, stamped with t, value bit-identical to the matching accessor
fn hist_consistent(o: &ObsQ, t: Time) -> (i64, bool, bool) {
    match o.hist {
        None => (-1, true, true),
        Some(d) => {
            let k = cmd_kind(d.value);
            let acc = match k { 0 => o.pos, 1 => o.vel, _ => o.acc };
            let bits_ok = acc.map(|q| q.value.to_bits() == f32::from(d.value).to_bits()).unwrap_or(false);
            (k, d.time == t, bits_ok)
        }
    }
}

fn mk_profile(mv: &Value, c: &C, negate: bool, flip_limits: bool) -> Result<MotionProfile, String> {
    let n = if negate { -1.0 } else { 1.0 };
    let start = State::new_raw((n * c.pos(&mv["x0"])) as f32, (n * c.vel(&mv["v0"])) as f32, 0.0);
    let end = State::new_raw((n * c.pos(&mv["xe"])) as f32, (n * c.vel(&mv["ve"])) as f32, (n * c.acc(&mv["ae"])) as f32);
    let fl = if flip_limits { -1.0 } else { 1.0 };
    let vm = Quantity::new((fl * c.vel(&mv["vm"])) as f32, MILLIMETER_PER_SECOND);
    let am = Quantity::new((fl * c.acc(&mv["am"])) as f32, MILLIMETER_PER_SECOND_SQUARED);
    catch(|| MotionProfile::new(start, end, vm, am))
}

type Bad = Option<(String, String, Value, Value)>; // (signature class, what, exp, got)

/// the end state's lowest non-zero derivative, computed independently of rrtk
fn lowest_nonzero(end: State) -> (i64, f32) {
    if end.acceleration != 0.0 { (2, end.acceleration) } else if end.velocity != 0.0 { (1, end.velocity) } else { (0, end.position) }
}
fn hist_is_end(o: &ObsQ, end: State) -> bool {
    match o.hist {
        Some(d) => (cmd_kind(d.value), f32::from(d.value).to_bits()) == { let (k, v) = lowest_nonzero(end); (k, v.to_bits()) },
        None => false,
    }
}

/// C15 over a real history: GetterFromHistory built over the real MotionProfile in each of its constructor forms (and after set_delta /
/// set_time) must return, at clock value `now`, the profile's command at (now + offset) restamped with `now`: the kind the phase automaton
/// and bits of a direct History::get on a twin profile.
fn adapter_case(case: &Value, c: &C, which: usize) -> Bad {
    if case["panic"].as_bool().unwrap() {
        return None;
    }
    let mv = &case["mv"];
    let (mut p, twin) = match (mk_profile(mv, c, false, false), mk_profile(mv, c, false, false)) {
        (Ok(a), Ok(b)) => (a, b),
        _ => return None, // constructor outcomes are C06 / C07's business
    };
    let clock = ScriptedClock::new();
    let base: i64 = [0i64, 1_000_000_007, -77_000_000_001, 1i64 << 50][which % 4];
    let start: i64 = [0i64, 5_000_000_000, -3][which % 3];
    clock.set(Ok(Time(base)));
    let form = which % 6;
    // offset = history time - clock time
    let built = catch(|| match form {
        0 => Ok((GetterFromHistory::new_no_delta(&mut p, clock.getter.clone()), 0i64)),
        1 => GetterFromHistory::new_start_at_zero(&mut p, clock.getter.clone()).map(|g| (g, -base)),
        2 => GetterFromHistory::new_custom_start(&mut p, clock.getter.clone(), Time(start)).map(|g| (g, start - base)),
        3 => Ok((GetterFromHistory::new_custom_delta(&mut p, clock.getter.clone(), Time(start - base)), start - base)),
        4 => {
            let mut g = GetterFromHistory::new_no_delta(&mut p, clock.getter.clone());
            g.set_delta(Time(7 - base));
            Ok((g, 7 - base))
        }
        _ => {
            let mut g = GetterFromHistory::new_custom_delta(&mut p, clock.getter.clone(), Time(123));
            g.set_time(Time(start)).map(|_| (g, start - base))
        }
    });
    let (g, offset) = match built {
        Ok(Ok(x)) => x,
        other => return Some(("adapter".into(), format!("constructing the history adapter (form {form}) failed"), json!("an adapter"), json!(format!("{:?}", other.map(|r| r.map(|_| ()))))))
    };
    for q in case["queries"].as_array().unwrap() {
        if s(q, "tag") != "" {
            continue; // i64 extremes would overflow now + offset
        }
        let t = i(q, "h") * (c.tick_ns() / 2) + i(q, "e"); // history time
        let now = t - offset;
        clock.set(Ok(Time(now)));
        let got: Output<Command, E> = match catch(|| g.get()) {
            Ok(o) => o,
            Err(m) => return Some(("adapter".into(), format!("GetterFromHistory::get panicked at history time {t} ns"), q.clone(), json!(m))),
        };
        let direct = History::<Command, E>::get(&twin, Time(t));
        // (what the profile's own history returns at t is C06's business: the adapter is compared with a direct call on a twin profile)
        let kind = direct.map(|e| cmd_kind(e.value)).unwrap_or(-1);
        let ok = match (&got, direct) {
            (Ok(None), None) => true,
            (Ok(Some(d)), Some(e)) => d.time == Time(now) && cmd_kind(d.value) == cmd_kind(e.value) && f32::from(d.value).to_bits() == f32::from(e.value).to_bits(),
            _ => false,
        };
        if !ok {
            return Some(("adapter".into(), format!("GetterFromHistory (form {form}, offset {offset} ns) over the motion profile at history time {t} ns, clock {now} ns"),
                         json!({"stamp_ns": now, "kind": kind, "value": direct.map(|e| f32::from(e.value))}),
                         json!(match got { Ok(Some(d)) => json!({"stamp_ns": d.time.0, "kind": cmd_kind(d.value), "value": f32::from(d.value)}), Ok(None) => json!("absent"), Err(_) => json!("error") })));
        }
    }
    None
}


/// The SYSTEM of spec/ProfileFollower.tla on the real objects: a CommandPID that follows a GetterFromHistory over a MotionProfile.
/// Compared with (1) a real twin controller that is handed `History::get(profile, t)` through `set` before each update (bit for bit)
/// and (2) the specification's prediction: presence of the output at every update, values within 2^-16 of the magnitudes involved.
fn follower_case(beh: &Value, c: &C) -> Bad {
    use rrtk::streams::control::CommandPID;
    let mv = &beh["mv"];
    let (p, twinp) = match (mk_profile(mv, c, false, false), mk_profile(mv, c, false, false)) {
        (Ok(a), Ok(b)) => (a, b),
        _ => return None, // constructor outcomes are C06 / C07's business
    };
    let p: &'static mut MotionProfile = Box::leak(Box::new(p));
    let clock = ScriptedClock::new();
    let half_ns = c.tick_ns() / 2;
    let tau = half_ns as f64 / 1e9; // the specification counts time in half ticks
    let sigma = [c.pos(&json!([1, 1])), c.vel(&json!([1, 1])), c.acc(&json!([1, 1]))];
    let g = [(1.0, 2.0, 4.0), (2.0, 4.0, 1.0), (4.0, 1.0, 2.0)];
    let kv = |x: (f64, f64, f64)| PIDKValues::new(x.0 as f32, (x.1 / tau) as f32, (x.2 * tau) as f32);
    let gains = || PositionDerivativeDependentPIDKValues::new(kv(g[0]), kv(g[1]), kv(g[2]));
    let init = Command::new(PositionDerivative::Position, (7.0 * sigma[0]) as f32);
    let getter = GetterFromHistory::new_no_delta(p, clock.getter.clone());
    let gref: Reference<dyn Getter<Command, E>> = to_dyn!(Getter<Command, E>, rc_ref_cell_reference(getter));
    let input = Scripted::<State>::new();
    let mut pid = CommandPID::new(input.getter.clone(), init, gains());
    pid.follow(gref);
    let tin = Scripted::<State>::new();
    let mut twin = CommandPID::new(tin.getter.clone(), init, gains());
    let steps = beh["steps"].as_array().unwrap();
    for (idx, st) in steps.iter().enumerate() {
        let h = i(st, "h");
        let t = Time(h * half_ns);
        let sample = State::new_raw(((2 * h - 3) as f64 * sigma[0]) as f32, ((4 - h) as f64 * sigma[1]) as f32, ((h % 3 - 1) as f64 * sigma[2]) as f32);
        clock.set(Ok(t));
        input.set(Ok(Some(Datum::new(t, sample))));
        tin.set(Ok(Some(Datum::new(t, sample))));
        let r = catch(|| pid.update());
        if !matches!(r, Ok(Ok(()))) {
            return Some(("follower".into(), format!("update of the following controller at half tick {h}"), json!("ok"), json!(format!("{r:?}"))));
        }
        if let Some(d) = History::<Command, E>::get(&twinp, t) {
            let _ = twin.set(d.value);
        }
        let _ = twin.update();
        let (a, b) = (pid.get(), twin.get());
        let same = match (&a, &b) {
            (Ok(Some(x)), Ok(Some(y))) => x.time == y.time && x.value.to_bits() == y.value.to_bits(),
            (Ok(None), Ok(None)) => true,
            _ => false,
        };
        if !same {
            return Some(("follower".into(), format!("controller following the profile vs a controller handed the profile's command through set, at half tick {h}"),
                         json!(format!("{b:?}")), json!(format!("{a:?}"))));
        }
        // the specification's prediction
        let k = i(&st["cmd"], "k") as usize;
        let exp = &st["out"];
        match (s(exp, "c"), &a) {
            ("none", Ok(None)) => {}
            ("some", Ok(Some(d))) => {
                let e = rat(&exp["v"]) * sigma[k] * tau.powi(k as i32);
                let mag = 4.0 * e.abs() + 1e-2 * (rat(&st["cmd"]["v"]).abs() + h.abs() as f64 + 1.0) * sigma[k] * tau.powi(k as i32);
                if d.time != t || !close(d.value, e, mag) {
                    return Some(("follower".into(), format!("output of the following controller at half tick {h} (command kind {k})"), json!({"t_ns": t.0, "v": e}), json!({"t_ns": d.time.0, "v": d.value})));
                }
            }
            _ => return Some(("follower".into(), format!("presence of the following controller's output at half tick {h} (step {idx})"), exp.clone(), json!(format!("{a:?}")))),
        }
    }
    None
}


/// C07 on a profile the exact family did not expect to exist: velocity and position must not jump (more than the limits allow between two
/// neighbouring instants) anywhere on a fine grid over the move and at the piece boundaries +-1 ns.
fn accepted_profile_is_a_trajectory(p: &MotionProfile, vlim: f64, amax: f64) -> Bad {
    let t3 = first_t_with(p, 4);
    if t3 <= 0 || t3 == i64::MAX {
        return None;
    }
    let mut ts: Vec<i64> = (0..=400).map(|k| (t3 as i128 * k as i128 / 400) as i64).collect();
    for b in [first_t_with(p, 2), first_t_with(p, 3), t3] {
        for d in [-1i64, 0, 1] {
            ts.push(b.saturating_add(d));
        }
    }
    ts.sort();
    ts.dedup();
    let mut prev: Option<(i64, f64, f64)> = None;
    for t in ts {
        if t < 0 || t >= t3 {
            continue;
        }
        let (v, x) = match (p.get_velocity(Time(t)), p.get_position(Time(t))) {
            (Some(v), Some(x)) => (v.value as f64, x.value as f64),
            _ => continue,
        };
        if let Some((pt, pv, px)) = prev {
            let dt = (t - pt) as f64 / 1e9;
            let vtol = 1e-3 * (vlim + amax * dt) + amax * dt * 1.01;
            let xtol = 1e-3 * (vlim * dt + x.abs().max(px.abs()) * 1e-3) + (vlim + amax * dt) * dt * 1.01 + f32::EPSILON as f64 * 64.0 * x.abs().max(px.abs());
            if (v - pv).abs() > vtol {
                return Some(("trapezoid".into(), format!("velocity of an accepted profile jumps between t = {pt} ns and t = {t} ns"), json!({"at_most": vtol}), json!({"from": pv, "to": v})));
            }
            if (x - px).abs() > xtol {
                return Some(("trapezoid".into(), format!("position of an accepted profile jumps between t = {pt} ns and t = {t} ns"), json!({"at_most": xtol}), json!({"from": px, "to": x})));
            }
        }
        prev = Some((t, v, x));
    }
    None
}

fn replay_case(case: &Value, c: &C, mode: &str, flip_limits: bool) -> Bad {
    let mv = &case["mv"];
    let end_state = State::new_raw(c.pos(&mv["xe"]) as f32, c.vel(&mv["ve"]) as f32, c.acc(&mv["ae"]) as f32);
    let exp_panic = case["panic"].as_bool().unwrap();
    let p = mk_profile(mv, c, false, flip_limits);
    match (&p, exp_panic) {
        (Err(_), true) => return None,
        (Err(m), false) => {
            // C06 lets the constructor refuse ("either panics or yields 0 <= t1 <= t2 <= t3"); C07 demands acceptance of a move whose
            // displacement COMFORTABLY exceeds its acceleration plus deceleration distance: here, at least one whole tick of cruising
            if mode != "c06" && mode != "adapter" && i(mv, "d2") >= 1 {
                return Some(("constructor".into(), "the constructor refused a comfortably long move".into(), json!("profile"), json!(m)));
            }
            return None;
        }
        (Ok(prof), true) => {
            // Refusing an infeasible request is C06's clause (0 <= t1 <= t2 <= t3 or panic).  C07 speaks of every ACCEPTED profile: if this one
            // was accepted it must still be a continuous trajectory within the limits, which is checked on the real object directly.
            if mode != "c07" {
                return Some(("constructor".into(), "the constructor accepted an infeasible move (a phase would have negative duration)".into(), json!("panic"), json!("profile")));
            }
            return accepted_profile_is_a_trajectory(prof, c.vel(&mv["vm"]).abs().max(c.vel(&mv["v0"]).abs()).max(c.vel(&mv["ve"]).abs()), c.acc(&mv["am"]).abs());
        }
        _ => {}
    }
    let p = p.unwrap();
    let zero_disp = mv["xe"] == mv["x0"];
    let neg = mk_profile(mv, c, true, flip_limits);
    let with_negation = mode == "c07" || mode == "all";
    if with_negation {
        if let Err(m) = &neg {
            return Some((if zero_disp { "negation:zero_displacement" } else { "negation" }.into(), "the negated request panicked".into(), json!("profile"), json!(m)));
        }
    }
    // magnitudes for the tolerance
    let mag_p = case["queries"].as_array().unwrap().iter().filter_map(|q| q["ref"].as_array().unwrap().first().map(|r| c.pos(&r["pos"]).abs())).fold(0f64, f64::max).max(c.pos(&mv["x0"]).abs());
    let mag_v = c.vel(&mv["vm"]).abs().max(c.vel(&mv["v0"]).abs()).max(c.vel(&mv["ve"]).abs());
    let mag_a = c.acc(&mv["am"]).abs().max(c.acc(&mv["ae"]).abs());
    for q in case["queries"].as_array().unwrap() {
        let t = match s(q, "tag") {
            "min" => Time(i64::MIN),
            "max" => Time(i64::MAX),
            _ => Time(i(q, "h") * (c.tick_ns() / 2) + i(q, "e")),
        };
        // C07 is quantified over the query times in [0, t3]: what the accessors do before the start, after completion and at the i64
        // extremes is C06's business
        if mode == "c07" && (s(q, "tag") != "" || i(q, "h") < 0 || i(q, "h") > 2 * i(mv, "t3") || (i(q, "h") == 2 * i(mv, "t3") && i(q, "e") > 0)) {
            continue;
        }
        let o = match observe(&p, t) {
            Ok(o) => o,
            Err(m) => return Some(("accessor_panic".into(), format!("an accessor panicked at t = {} ns", t.0), q.clone(), json!(m))),
        };
        let qd = json!({"t_ns": t.0, "h": q["h"], "e": q["e"], "tag": q["tag"]});
        if mode != "c07" {
            let (hk, ht, hb) = hist_consistent(&o, t);
            let got = json!({"piece": o.piece, "mode": o.mode, "hasAcc": o.acc.is_some(), "hasVel": o.vel.is_some(), "hasPos": o.pos.is_some(),
                             "histKind": hk, "histTimeOk": ht, "histBitsOk": hb});
            let exp = json!({"piece": q["piece"], "mode": q["mode"], "hasAcc": q["hasAcc"], "hasVel": q["hasVel"], "hasPos": q["hasPos"],
                             "histKind": q["mode"], "histTimeOk": true, "histBitsOk": true});
            if got != exp {
                return Some(("accessors".into(), format!("accessors disagree with the phase automaton at {qd}"), exp, got));
            }
            if o.piece == 4 && !hist_is_end(&o, end_state) {
                return Some(("accessors".into(), format!("from completion onward the history must return the end state's lowest non-zero derivative (at {qd})"),
                             json!(lowest_nonzero(end_state)), json!(o.hist.map(|d| (cmd_kind(d.value), f32::from(d.value))))));
            }
            let units_ok = o.acc.map(|x| unit_is(x.unit, 1, -2)).unwrap_or(true) && o.vel.map(|x| unit_is(x.unit, 1, -1)).unwrap_or(true) && o.pos.map(|x| unit_is(x.unit, 1, 0)).unwrap_or(true);
            if !units_ok {
                return Some(("accessors".into(), format!("unit of an accessor at {qd}"), json!("mm, mm/s, mm/s^2"), json!("other")));
            }
        }
        if mode != "c06" {
            if let Some(r) = q["ref"].as_array().unwrap().first() {
                let checks = [("acceleration", o.acc, c.acc(&r["acc"]), mag_a), ("velocity", o.vel, c.vel(&r["vel"]), mag_v), ("position", o.pos, c.pos(&r["pos"]), mag_p)];
                for (name, got, exp, mag) in checks {
                    // C07 speaks of the acceleration DURING the move; what the accessors return once the move is complete is C06's business
                    if name == "acceleration" && o.piece == 4 {
                        continue;
                    }
                    if let Some(g) = got {
                        if !close(g.value, exp, mag) {
                            return Some(("trapezoid".into(), format!("{name} at {qd} differs from the reference trapezoid"), json!(exp), json!(g.value)));
                        }
                    }
                }
            }
            // negating all positions and velocities negates every output exactly
            if let (true, Ok(np)) = (with_negation, &neg) {
                let on = match observe(np, t) {
                    Ok(o) => o,
                    Err(m) => return Some(("negation".into(), format!("an accessor of the negated profile panicked at {qd}"), q.clone(), json!(m))),
                };
                let negated = |a: Option<Quantity>, b: Option<Quantity>| match (a, b) {
                    (None, None) => true,
                    (Some(x), Some(y)) => x.value == -y.value,
                    _ => false,
                };
                if !(negated(o.acc, on.acc) && negated(o.vel, on.vel) && negated(o.pos, on.pos) && o.piece == on.piece) {
                    let show = |o: &ObsQ| json!({"piece": o.piece, "acc": o.acc.map(|x| x.value), "vel": o.vel.map(|x| x.value), "pos": o.pos.map(|x| x.value)});
                    return Some((if zero_disp { "negation:zero_displacement" } else { "negation" }.into(),
                                 format!("outputs of the negated request are not the exact negation at {qd}"), show(&o), show(&on)));
                }
            }
        }
    }
    None
}

// ------------------------------------------------------------------------------------------------
// recorder
// ------------------------------------------------------------------------------------------------
fn first_t_with(p: &MotionProfile, want: i64) -> i64 {
    // smallest t >= 0 with piece(t) >= want (or i64::MAX if none); get_piece is assumed monotone here and
    // monotonicity itself is checked by the trace specification on the sorted queries
    let ge = |t: i64| piece_idx(p.get_piece(Time(t))) >= want;
    if ge(0) {
        return 0;
    }
    let (mut lo, mut hi) = (0i64, i64::MAX);
    if !ge(hi) {
        return i64::MAX;
    }
    while hi - lo > 1 {
        let mid = lo + (hi - lo) / 2;
        if ge(mid) { hi = mid } else { lo = mid }
    }
    hi
}
fn record(path: &str, seed: u64, n: usize) {
    let mut rng = Rng::new(seed);
    let mut f = std::io::BufWriter::new(std::fs::File::create(path).expect("create trace"));
    for _ in 0..n {
        let pos = |r: &mut Rng| (r.unit() * 2.0 - 1.0) as f32 * 1e4;
        let lim = |r: &mut Rng| 10f64.powf(r.unit() * 5.0 - 2.0) as f32; // 1e-2 .. 1e3
        let vmax = lim(&mut rng);
        let amax = lim(&mut rng);
        let speed = |r: &mut Rng| match r.below(5) {
            0 => 0.0,
            1 => vmax * if r.next() & 1 == 0 { 1.0 } else { -1.0 },
            2 => (r.unit() * 2.4 - 1.2) as f32 * vmax, // sometimes beyond the limit: the constructor must then panic
            _ => (r.unit() * 2.0 - 1.0) as f32 * vmax,
        };
        let start = State::new_raw(pos(&mut rng), speed(&mut rng), if rng.below(3) == 0 { rng.float(-3, 3) } else { 0.0 });
        let near = rng.below(4) == 0;
        let end_pos = if near { start.position + rng.float(-8, 2) } else { pos(&mut rng) };
        let end = State::new_raw(end_pos, speed(&mut rng), if rng.below(3) == 0 { rng.float(-3, 3) } else { 0.0 });
        let prof = catch(|| MotionProfile::new(start, end, Quantity::new(vmax, MILLIMETER_PER_SECOND), Quantity::new(amax, MILLIMETER_PER_SECOND_SQUARED)));
        let endkind = cmd_kind(Command::from(end));
        writeln!(f, "{}", json!({"k": "profile", "panic": prof.is_err(), "endkind": endkind,
                                 "args": {"start": [start.position, start.velocity, start.acceleration], "end": [end.position, end.velocity, end.acceleration], "vmax": vmax, "amax": amax}})).unwrap();
        let p = match prof {
            Ok(p) => p,
            Err(_) => continue,
        };
        let (t1, t2, t3) = (first_t_with(&p, 2), first_t_with(&p, 3), first_t_with(&p, 4));
        let mut ts: Vec<i64> = vec![i64::MIN, i64::MIN + 1, -1_000_000_000, -1, 0, 1, i64::MAX, i64::MAX - 1];
        for b in [t1, t2, t3] {
            for d in [-2i64, -1, 0, 1, 2] {
                ts.push(b.saturating_add(d));
            }
        }
        for _ in 0..40 {
            let hi = t3.saturating_add(t3 / 4).max(1000);
            ts.push(rng.range(-(hi / 8).max(1), hi));
        }
        ts.sort();
        ts.dedup();
        for t in ts {
            let tt = Time(t);
            let o = match observe(&p, tt) {
                Ok(o) => o,
                Err(m) => {
                    writeln!(f, "{}", json!({"k": "panic", "t": t, "msg": m})).unwrap();
                    break;
                }
            };
            let (hk, ht, hb) = hist_consistent(&o, tt);
            let hb = hb && (o.piece != 4 || hist_is_end(&o, end));
            writeln!(f, "{}", json!({"k": "q", "lt0": t < 0, "lt1": t < t1, "lt2": t < t2, "lt3": t < t3, "piece": o.piece, "mode": o.mode,
                                     "hasAcc": o.acc.is_some(), "hasVel": o.vel.is_some(), "hasPos": o.pos.is_some(),
                                     "histKind": hk, "histTimeOk": ht, "histBitsOk": hb})).unwrap();
        }
    }
    f.flush().unwrap();
}


// ------------------------------------------------------------------------------------------------
// recorder for spec/ProfileNumTrace.tla: numeric clauses of C07 on arbitrary arguments
// ------------------------------------------------------------------------------------------------
fn scaled(err: f64, bound: f64) -> (i64, i64) {
    // integers for TLC: both scaled by the same factor so that the bound is about 1e6
    if !(err.is_finite() && bound.is_finite()) || bound <= 0.0 {
        return (1 << 30, 0);
    }
    let k = 1.0e6 / bound;
    (((err.abs() * k).min(1.0e9)) as i64, 1_000_000)
}
fn record_num(path: &str, seed: u64, n: usize) {
    let mut rng = Rng::new(seed);
    let mut f = std::io::BufWriter::new(std::fs::File::create(path).expect("create trace"));
    let mut done = 0;
    let mut tries = 0;
    while done < n && tries < 50 * n {
        tries += 1;
        let pos = |r: &mut Rng| (r.unit() * 2.0 - 1.0) as f32 * 1e4;
        let lim = |r: &mut Rng| 10f64.powf(r.unit() * 5.0 - 2.0) as f32;
        let vmax = lim(&mut rng);
        let amax = lim(&mut rng);
        let speed = |r: &mut Rng| match r.below(4) { 0 => 0.0, 1 => vmax * if r.next() & 1 == 0 { 1.0 } else { -1.0 }, _ => (r.unit() * 2.0 - 1.0) as f32 * vmax };
        let start = State::new_raw(pos(&mut rng), speed(&mut rng), 0.0);
        let end_pos = if rng.below(20) == 0 { start.position } else { pos(&mut rng) };
        let end = State::new_raw(end_pos, speed(&mut rng), if rng.below(4) == 0 { rng.float(-3, 3) } else { 0.0 });
        let mk = |s: State, e: State| catch(move || MotionProfile::new(s, e, Quantity::new(vmax, MILLIMETER_PER_SECOND), Quantity::new(amax, MILLIMETER_PER_SECOND_SQUARED)));
        let p = match mk(start, end) {
            Ok(p) => p,
            Err(_) => {
                // C07: a move whose displacement comfortably exceeds its acceleration plus deceleration distance, with start and end speeds
                // inside the limit, is always accepted ("comfortably": by a factor of two here, computed in f64)
                let (v0, ve, vm, am) = (start.velocity as f64, end.velocity as f64, vmax as f64, amax as f64);
                let dir = if end.position < start.position { -1.0 } else { 1.0 };
                let d_acc = ((vm * vm - v0 * v0) / (2.0 * am)).abs() + if v0 * dir < 0.0 { v0 * v0 / am } else { 0.0 };
                let d_dec = ((vm * vm - ve * ve) / (2.0 * am)).abs() + if ve * dir < 0.0 { ve * ve / am } else { 0.0 };
                let disp = (end.position as f64 - start.position as f64).abs();
                if v0.abs() <= vm && ve.abs() <= vm && disp > 2.0 * (d_acc + d_dec) + 1e-3 {
                    writeln!(f, "{}", json!({"k": "refused", "disp": disp, "needed": d_acc + d_dec, "vmax": vm, "amax": am, "v0": v0, "ve": ve})).unwrap();
                }
                continue;
            }
        };
        let zerodisp = end.position == start.position;
        let np = mk(-start, -end);
        if np.is_err() && !zerodisp {
            writeln!(f, "{}", json!({"k": "negpanic"})).unwrap();
            continue;
        }
        done += 1;
        let dir: i64 = if end.position < start.position { -1 } else { 1 };
        writeln!(f, "{}", json!({"k": "prof", "dir": dir, "akey": f32_key(amax), "vmaxkey": f32_key(vmax), "v0key": f32_key(start.velocity),
                                 "vekey": f32_key(end.velocity), "x0key": f32_key(start.position), "zerodisp": zerodisp || np.is_err()})).unwrap();
        let (t1, t2, t3) = (first_t_with(&p, 2), first_t_with(&p, 3), first_t_with(&p, 4));
        let mut ts: Vec<i64> = vec![0];
        for b in [t1, t2, t3] {
            for d in [-1i64, 0, 1] {
                ts.push(b.saturating_add(d));
            }
        }
        for _ in 0..24 {
            ts.push(rng.range(0, t3.max(1)));
        }
        ts.sort();
        ts.dedup();
        // position is the time integral of velocity: within one piece the velocity is linear in t, so between two queries of the same
        // piece the position must advance by the mean of the two velocities times the interval
        let mut prev: Option<(i64, i64, f64, f64)> = None;
        let int_bound = {
            let eps = f32::EPSILON as f64;
            let t3s = t3 as f64 / 1e9;
            let vscale = (vmax as f64).max(start.velocity.abs() as f64).max(end.velocity.abs() as f64).max(amax as f64 * t3s);
            let pscale = (start.position.abs() as f64).max(end.position.abs() as f64).max(vscale * t3s).max(amax as f64 * t3s * t3s);
            8.0 * eps * pscale + 4.0 * vscale * 1e-9
        };
        for t in ts {
            if t < 0 || t >= t3 {
                continue;
            }
            let o = match observe(&p, Time(t)) { Ok(o) => o, Err(_) => { writeln!(f, "{}", json!({"k": "panic"})).unwrap(); break } };
            if let (Some(v), Some(x)) = (o.vel, o.pos) {
                if let Some((pt, pp, pv, px)) = prev {
                    if pp == o.piece {
                        let (e, bd) = scaled((x.value as f64 - px) - (v.value as f64 + pv) / 2.0 * ((t - pt) as f64 / 1e9), int_bound);
                        writeln!(f, "{}", json!({"k": "b", "what": "position advances by the integral of the velocity between two instants of one piece", "err": e, "bound": bd})).unwrap();
                    }
                }
                prev = Some((t, o.piece, v.value as f64, x.value as f64));
            }
            let on = np.as_ref().ok().and_then(|q| observe(q, Time(t)).ok());
            let kq = |x: Option<Quantity>| x.map(|q| f32_key(q.value)).unwrap_or(i64::MAX >> 34);
            let (na, nv, npz, npc) = match &on { Some(o2) => (kq(o2.acc), kq(o2.vel), kq(o2.pos), o2.piece), None => (0, 0, 0, 0) };
            if let Some(v) = o.vel {
                // the speed limit, within the rounding of a * t in f32 (the recorder supplies the bound, TLC compares)
                let t3s = t3 as f64 / 1e9;
                let lim = (vmax as f64).max(start.velocity.abs() as f64).max(end.velocity.abs() as f64);
                let vb = 8.0 * f32::EPSILON as f64 * lim.max(amax as f64 * t3s) + 4.0 * amax as f64 * 1e-9;
                let (e, bd) = scaled((v.value.abs() as f64 - lim).max(0.0), vb);
                writeln!(f, "{}", json!({"k": "b", "what": "speed within the largest of the limit and the start and end speeds", "err": e, "bound": bd})).unwrap();
            }
            writeln!(f, "{}", json!({"k": "q", "piece": o.piece, "atzero": t == 0, "acc": kq(o.acc), "vel": kq(o.vel), "pos": kq(o.pos),
                                     "nacc": na, "nvel": nv, "npos": npz, "npiece": npc})).unwrap();
        }
        // clauses that need real arithmetic: continuity at the joins and arrival at the goal, with a bound from the magnitudes involved
        let vq = |t: i64| p.get_velocity(Time(t)).map(|q| q.value as f64);
        let pq = |t: i64| p.get_position(Time(t)).map(|q| q.value as f64);
        let eps = f32::EPSILON as f64;
        let t3s = t3 as f64 / 1e9;
        let vscale = (vmax as f64).max(start.velocity.abs() as f64).max(end.velocity.abs() as f64).max(amax as f64 * t3s);
        let pscale = (start.position.abs() as f64).max(end.position.abs() as f64).max(vscale * t3s).max(amax as f64 * t3s * t3s);
        // one nanosecond of velocity / position change is legitimate across a join, as is the truncation of t1..t3 to whole nanoseconds
        let vbound = 8.0 * eps * vscale + 4.0 * amax as f64 * 1e-9;
        let pbound = 16.0 * eps * pscale + 4.0 * vscale * 1e-9;
        for b in [t1, t2] {
            if b > 0 && b < t3 {
                if let (Some(a), Some(c)) = (vq(b - 1), vq(b)) {
                    let (e, bd) = scaled(c - a, vbound);
                    writeln!(f, "{}", json!({"k": "b", "what": "velocity continuous at a join", "err": e, "bound": bd})).unwrap();
                }
                if let (Some(a), Some(c)) = (pq(b - 1), pq(b)) {
                    let (e, bd) = scaled(c - a, pbound);
                    writeln!(f, "{}", json!({"k": "b", "what": "position continuous at a join", "err": e, "bound": bd})).unwrap();
                }
            }
        }
        if t3 > 0 {
            if let Some(v) = vq(t3 - 1) {
                let (e, bd) = scaled(v - end.velocity as f64, vbound);
                writeln!(f, "{}", json!({"k": "b", "what": "velocity at completion equals the end velocity", "err": e, "bound": bd})).unwrap();
            }
            if let Some(x) = pq(t3 - 1) {
                let (e, bd) = scaled(x - end.position as f64, pbound);
                writeln!(f, "{}", json!({"k": "b", "what": "position at completion equals the end position", "err": e, "bound": bd})).unwrap();
            }
        }
    }
    f.flush().unwrap();
}

fn main() {
    silence_panics();
    let args: Vec<String> = std::env::args().collect();
    if args.len() >= 5 && args[1] == "record" && args.get(5).map(|x| x == "num").unwrap_or(false) {
        record_num(&args[2], args[3].parse().unwrap_or(1), args[4].parse().unwrap_or(100));
        println!("SUMMARY {}", json!({"recorded": true}));
        return;
    }
    if args.len() >= 5 && args[1] == "record" {
        record(&args[2], args[3].parse().unwrap_or(1), args[4].parse().unwrap_or(100));
        println!("SUMMARY {}", json!({"recorded": true}));
        return;
    }
    if args.len() < 4 || args[1] != "replay" {
        eprintln!("usage: profile replay <cases.ndjson> <seed> [--mode c06|c07|all] | profile record <out> <seed> <n>");
        std::process::exit(2);
    }
    let lines = read_lines(&args[2]);
    let only: Option<usize> = args.iter().position(|a| a == "--only").map(|p| args[p + 1].parse().unwrap());
    let mode: String = args.iter().position(|a| a == "--mode").map(|p| args[p + 1].clone()).unwrap_or("all".into());
    let mut rng = Rng::new(args[3].parse().unwrap_or(1));
    // the tick must be an even number of nanoseconds (the code halves t1 in integer nanoseconds)
    let mut concs = vec![C { tick_pow2: 0, scale_pow2: 0 }, C { tick_pow2: -2, scale_pow2: 3 }, C { tick_pow2: 3, scale_pow2: -2 }, C { tick_pow2: -7, scale_pow2: 6 }];
    concs.push(C { tick_pow2: rng.range(-8, 6) as i32, scale_pow2: rng.range(-6, 10) as i32 });
    // tiny values (around 1e-9): a non-zero end velocity or acceleration is non-zero however small (exact: powers of two)
    concs.push(C { tick_pow2: 0, scale_pow2: -30 });
    let mut rep = Report::new();
    for (ln, l) in lines.iter().enumerate() {
        if let Some(o) = only {
            if o != ln {
                continue;
            }
        }
        let case: Value = serde_json::from_str(l).unwrap_or_else(|e| {
            eprintln!("bad line {ln}: {e}");
            std::process::exit(2)
        });
        rep.count("behaviours", 1);
        if mode == "follower" {
            if case["steps"].as_array().unwrap().iter().filter(|st| st["changed"] == json!(true)).count() >= 2 {
                rep.count("nontrivial", 1);
            }
            for c in concs.iter().take(3) {
                rep.count("replays", 1);
                if let Some((class, what, exp, got)) = follower_case(&case, c) {
                    rep.mismatch(json!({"line": ln, "class": class, "what": what, "exp": exp, "got": got, "conc": c.json()}));
                    break;
                }
            }
            continue;
        }
        if !case["panic"].as_bool().unwrap() {
            rep.count("nontrivial", 1);
        }
        for (ci, c) in concs.iter().enumerate() {
            rep.count("replays", 1);
            rep.count("queries", case["queries"].as_array().unwrap().len() as u64);
            let r = if mode == "adapter" { adapter_case(&case, c, ln + ci) } else { replay_case(&case, c, &mode, ci % 2 == 1) };
            if let Some((class, what, exp, got)) = r {
                rep.mismatch(json!({"line": ln, "class": class, "what": what, "exp": exp, "got": got, "conc": c.json()}));
                break;
            }
        }
    }
    rep.finish();
}
