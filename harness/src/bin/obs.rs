//! C19: a battery of seeded programs over ARBITRARY (non-dyadic) floats whose results must not depend on the feature
//! configuration.  The exact-domain replays cannot see a configuration-dependent rounding (a fused multiply-add under
//! std, another summation order under libm): on dyadic values every order rounds alike.  This binary executes the same
//! pseudo-random programs in every configuration and prints one `OBS` line per case with the raw bits of every result;
//! the C19 check compares the lines of the configurations with each other.  Nothing here uses the power function (the one
//! operation the configurations legitimately supply differently) and every operand is correctly dimensioned, so that
//! dimension checking cannot make a difference either.
use rrtk::streams::control::*;
use rrtk::streams::converters::*;
use rrtk::streams::math::*;
use rrtk::*;
use rrtk_conform::*;

fn b(x: f32) -> String {
    // (sign and payload of a NaN depend on the compiler's operand order and carry no meaning)
    if x.is_nan() { "nan".into() } else { format!("{:08x}", x.to_bits()) }
}
fn bq(q: Quantity) -> String {
    b(q.value)
}
fn bs(s: State) -> String {
    format!("{},{},{}", b(s.position), b(s.velocity), b(s.acceleration))
}
fn bo(o: Output<f32, E>) -> String {
    match o {
        Ok(Some(d)) => format!("{}@{}", b(d.value), d.time.0),
        Ok(None) => "none".into(),
        Err(_) => "err".into(),
    }
}
fn boq(o: Output<Quantity, E>) -> String {
    bo(o.map(|x| x.map(|d| Datum::new(d.time, d.value.value))))
}
fn bos(o: Output<State, E>) -> String {
    match o {
        Ok(Some(d)) => format!("{}@{}", bs(d.value), d.time.0),
        Ok(None) => "none".into(),
        Err(_) => "err".into(),
    }
}
/// a "generic" float: random mantissa, exponent in a moderate range, either sign
fn fl(r: &mut Rng) -> f32 {
    r.float(-8, 12)
}

fn main() {
    silence_panics();
    let args: Vec<String> = std::env::args().collect();
    let seed: u64 = args.get(1).and_then(|x| x.parse().ok()).unwrap_or(1);
    let n: usize = args.get(2).and_then(|x| x.parse().ok()).unwrap_or(500);
    let mut r = Rng::new(seed);

    // ---- quantities -------------------------------------------------------------------------------------------
    for k in 0..n {
        let (x, y) = (fl(&mut r), fl(&mut r));
        let (p, q) = (Quantity::new(x, MILLIMETER), Quantity::new(y, MILLIMETER));
        let t = Quantity::new(y, SECOND);
        let out = catch(|| {
            format!("{} {} {} {} {} {} {} {:?}", bq(p + q), bq(p - q), bq(p * t), bq(p / t), bq(-p), bq(p.abs()), bq(p / q), p.partial_cmp(&q))
        });
        println!("OBS quantity {k} {}", out.unwrap_or_else(|e| format!("panic {e}")));
    }
    // ---- time <-> quantity ------------------------------------------------------------------------------------
    for k in 0..n {
        let ns = r.range(-(1i64 << 50), 1i64 << 50);
        let secs = fl(&mut r);
        let out = catch(|| {
            let q = Quantity::from(Time(ns));
            let t = Time::try_from(Quantity::new(secs, SECOND));
            let mixed = Quantity::new(secs, MILLIMETER) / Time(ns.max(1));
            format!("{} {:?} {}", bq(q), t.map(|t| t.0), bq(mixed))
        });
        println!("OBS time {k} {}", out.unwrap_or_else(|e| format!("panic {e}")));
    }
    // ---- states and commands ----------------------------------------------------------------------------------
    for k in 0..n {
        let s0 = State::new_raw(fl(&mut r), fl(&mut r), fl(&mut r));
        let s1 = State::new_raw(fl(&mut r), fl(&mut r), fl(&mut r));
        let dt = Time(r.range(-(1i64 << 36), 1i64 << 36));
        let f = fl(&mut r);
        let out = catch(|| {
            let mut u = s0;
            u.update(dt);
            let mut u2 = u;
            u2.update(Time(dt.0 / 3));
            let c = Command::from(u);
            format!("{} {} {} {} {} {} {}", bs(u), bs(u2), bs(s0 + s1), bs(s0 - s1), bs(s0 * f), bs(s0 / f), b(f32::from(c)))
        });
        println!("OBS state {k} {}", out.unwrap_or_else(|e| format!("panic {e}")));
    }
    // ---- streams on irregular histories -----------------------------------------------------------------------
    for k in 0..n / 4 {
        let len = 3 + r.below(10) as usize;
        let mut t = r.range(-(1i64 << 40), 1i64 << 40);
        let inp = Scripted::<f32>::new();
        let inq = Scripted::<Quantity>::new();
        let ins = Scripted::<State>::new();
        let mut pid = PIDControllerStream::new(inp.getter.clone(), fl(&mut r), PIDKValues::new(fl(&mut r), fl(&mut r), fl(&mut r)));
        let mut ma = MovingAverageStream::<f32, _, E>::new(inp.getter.clone(), Time(r.range(1, 1i64 << 32)));
        let mut maq = MovingAverageStream::<Quantity, _, E>::new(inq.getter.clone(), Time(r.range(1, 1i64 << 32)));
        let mut int = IntegralStream::new(inq.getter.clone());
        let mut der = DerivativeStream::new(inq.getter.clone());
        let mut p2s = PositionToState::new(inq.getter.clone());
        let kv = |r: &mut Rng| PIDKValues::new(fl(r), fl(r), fl(r));
        let gains = PositionDerivativeDependentPIDKValues::new(kv(&mut r), kv(&mut r), kv(&mut r));
        let kind = match r.below(3) { 0 => PositionDerivative::Position, 1 => PositionDerivative::Velocity, _ => PositionDerivative::Acceleration };
        let mut cpid = CommandPID::new(ins.getter.clone(), Command::new(kind, fl(&mut r)), gains);
        let mut line = String::new();
        for _ in 0..len {
            t += r.range(1_000, 1i64 << 31);
            let v = fl(&mut r);
            inp.set(Ok(Some(Datum::new(Time(t), v))));
            inq.set(Ok(Some(Datum::new(Time(t), Quantity::new(v, MILLIMETER)))));
            ins.set(Ok(Some(Datum::new(Time(t), State::new_raw(v, fl(&mut r), fl(&mut r))))));
            let out = catch(|| {
                let _ = pid.update();
                let _ = ma.update();
                let _ = maq.update();
                let _ = int.update();
                let _ = der.update();
                let _ = p2s.update();
                let _ = cpid.update();
                format!("[{} {} {} {} {} {} {}]", bo(pid.get()), bo(ma.get()), boq(maq.get()), boq(int.get()), boq(der.get()), bos(p2s.get()), bo(cpid.get()))
            });
            line.push_str(&out.unwrap_or_else(|e| format!("[panic {e}]")));
        }
        println!("OBS streams {k} {line}");
    }
    // ---- n-ary and binary arithmetic streams --------------------------------------------------------------------
    for k in 0..n / 2 {
        let xs: Vec<Scripted<f32>> = (0..4).map(|_| Scripted::<f32>::new()).collect();
        for (j, x) in xs.iter().enumerate() {
            x.set(Ok(Some(Datum::new(Time(j as i64), fl(&mut r)))));
        }
        let out = catch(|| {
            let dy = |j: usize| -> Reference<dyn Getter<f32, E>> { to_dyn!(Getter<f32, E>, xs[j].getter.clone()) };
            let sum = SumStream::new([dy(0), dy(1), dy(2), dy(3)]);
            let prod = ProductStream::new([dy(0), dy(1), dy(2), dy(3)]);
            let diff = DifferenceStream::new(xs[0].getter.clone(), xs[1].getter.clone());
            let quot = QuotientStream::new(xs[2].getter.clone(), xs[3].getter.clone());
            format!("{} {} {} {}", bo(sum.get()), bo(prod.get()), bo(diff.get()), bo(quot.get()))
        });
        println!("OBS arith {k} {}", out.unwrap_or_else(|e| format!("panic {e}")));
    }
    // ---- motion profiles -----------------------------------------------------------------------------------------
    let mut made = 0;
    let mut tries = 0;
    while made < n / 4 && tries < 20 * n {
        tries += 1;
        let vmax = 10f64.powf(r.unit() * 5.0 - 2.0) as f32;
        let amax = 10f64.powf(r.unit() * 5.0 - 2.0) as f32;
        let start = State::new_raw((r.unit() * 2e4 - 1e4) as f32, ((r.unit() * 2.0 - 1.0) as f32) * vmax, 0.0);
        let end = State::new_raw((r.unit() * 2e4 - 1e4) as f32, ((r.unit() * 2.0 - 1.0) as f32) * vmax, 0.0);
        let p = match catch(move || MotionProfile::new(start, end, Quantity::new(vmax, MILLIMETER_PER_SECOND), Quantity::new(amax, MILLIMETER_PER_SECOND_SQUARED))) {
            Ok(p) => p,
            Err(_) => {
                println!("OBS profile-refused {tries}");
                continue;
            }
        };
        made += 1;
        let mut line = String::new();
        for _ in 0..8 {
            let t = Time(r.range(0, 1i64 << 44));
            let out = catch(|| {
                format!("[{:?} {:?} {:?} {:?}]", p.get_piece(t) as u8, p.get_position(t).map(bq), p.get_velocity(t).map(bq), p.get_acceleration(t).map(bq))
            });
            line.push_str(&out.unwrap_or_else(|e| format!("[panic {e}]")));
        }
        println!("OBS profile {tries} {line}");
    }
    // ---- devices ---------------------------------------------------------------------------------------------------
    #[cfg(feature = "devices")]
    {
        use rrtk::devices::*;
        for k in 0..n / 2 {
            let out = catch(|| {
                let ratio = fl(&mut r);
                let g = Box::leak(Box::new(GearTrain::<E>::with_ratio_raw(ratio)));
                let d = Box::leak(Box::new(Differential::<E>::new()));
                let a = Box::leak(Box::new(Axle::<3, E>::new()));
                let ext: Vec<&'static core::cell::RefCell<Terminal<'static, E>>> = (0..8).map(|_| &*Box::leak(Box::new(Terminal::<E>::new()))).collect();
                connect(g.get_terminal_1(), ext[0]);
                connect(g.get_terminal_2(), ext[1]);
                connect(d.get_side_1(), ext[2]);
                connect(d.get_side_2(), ext[3]);
                connect(d.get_sum(), ext[4]);
                for j in 0..3 {
                    connect(a.get_terminal(j), ext[5 + j]);
                }
                for (j, e) in ext.iter().enumerate() {
                    let _ = e.borrow_mut().set(Datum::new(Time(j as i64 * 7 - 20), State::new_raw(fl(&mut r), fl(&mut r), fl(&mut r))));
                    if j % 3 == 0 {
                        let _ = e.borrow_mut().set(Datum::new(Time(j as i64), Command::new(PositionDerivative::Velocity, fl(&mut r))));
                    }
                }
                let _ = g.update();
                let _ = d.update();
                let _ = a.update();
                let mut line = String::new();
                for e in &ext {
                    let st: Output<State, E> = e.borrow().get();
                    let cm: Output<Command, E> = e.borrow().get();
                    line.push_str(&format!("[{} {}]", bos(st), match cm { Ok(Some(c)) => format!("{}@{}", b(f32::from(c.value)), c.time.0), Ok(None) => "none".into(), Err(_) => "err".into() }));
                }
                line
            });
            println!("OBS devices {k} {}", out.unwrap_or_else(|e| format!("panic {e}")));
        }
    }
    println!("SUMMARY {}", serde_json::json!({"cases": n}));
}
