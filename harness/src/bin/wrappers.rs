//! C20: replay of behaviours emitted by TLC from spec/Wrappers.tla against the real device wrappers.
//! usage: wrappers replay <behaviours.ndjson> <seed> [--only <line>]
use rrtk::devices::wrappers::*;
use rrtk::streams::control::CommandPID;
use rrtk::*;
use rrtk_conform::*;
use serde_json::{json, Value};
use std::cell::RefCell;
use std::rc::Rc;

type Term = &'static RefCell<Terminal<'static, E>>;
fn leak<T>(x: T) -> &'static mut T {
    Box::leak(Box::new(x))
}
#[derive(Clone, Copy)]
struct C {
    base: i64,
    tick_pow2: i32,
    scale_pow2: i32,
}
impl C {
    fn tick_ns(&self) -> i64 {
        if self.tick_pow2 >= 0 { 1_000_000_000i64 << self.tick_pow2 } else { 1_000_000_000i64 >> (-self.tick_pow2) }
    }
    fn tau(&self) -> f64 {
        2f64.powi(self.tick_pow2)
    }
    fn t(&self, r: i64) -> Time {
        Time(self.base + r * self.tick_ns())
    }
    fn v(&self, r: &Value) -> f32 {
        (rat(r) * 2f64.powi(self.scale_pow2)) as f32
    }
    fn state(&self, s: &Value) -> State {
        State::new_raw(self.v(&s[0]), self.v(&s[1]), self.v(&s[2]))
    }
    fn json(&self) -> Value {
        json!({"base": self.base, "tick_pow2": self.tick_pow2, "scale_pow2": self.scale_pow2})
    }
}
fn pd(k: i64) -> PositionDerivative {
    match k {
        0 => PositionDerivative::Position,
        1 => PositionDerivative::Velocity,
        _ => PositionDerivative::Acceleration,
    }
}
fn kind(c: Command) -> i64 {
    match PositionDerivative::from(c) {
        PositionDerivative::Position => 0,
        PositionDerivative::Velocity => 1,
        PositionDerivative::Acceleration => 2,
    }
}

/// an actuator that records what it is handed; set / update succeed or fail as scripted
struct Actuator {
    data: SettableData<TerminalData, E>,
    set_ok: Rc<RefCell<bool>>,
    upd_ok: Rc<RefCell<bool>>,
    received: Rc<RefCell<Vec<(TerminalData, bool)>>>,
    updates: Rc<RefCell<u64>>,
}
impl Settable<TerminalData, E> for Actuator {
    fn impl_set(&mut self, value: TerminalData) -> NothingOrError<E> {
        let ok = *self.set_ok.borrow();
        self.received.borrow_mut().push((value, ok));
        if ok { Ok(()) } else { Err(Error::Other(7)) }
    }
    fn get_settable_data_ref(&self) -> &SettableData<TerminalData, E> {
        &self.data
    }
    fn get_settable_data_mut(&mut self) -> &mut SettableData<TerminalData, E> {
        &mut self.data
    }
}
impl Updatable<E> for Actuator {
    fn update(&mut self) -> NothingOrError<E> {
        *self.updates.borrow_mut() += 1;
        if *self.upd_ok.borrow() { Ok(()) } else { Err(Error::Other(8)) }
    }
}
/// an encoder whose update / get outcomes are scripted
struct Encoder {
    upd_ok: Rc<RefCell<bool>>,
    /// what the encoder will show after its next successful update (it samples at update, like a real sensor driver)
    next: Rc<RefCell<Output<State, E>>>,
    out: Rc<RefCell<Output<State, E>>>,
    updates: Rc<RefCell<u64>>,
}
impl Getter<State, E> for Encoder {
    fn get(&self) -> Output<State, E> {
        self.out.borrow().clone()
    }
}
impl Updatable<E> for Encoder {
    fn update(&mut self) -> NothingOrError<E> {
        if *self.upd_ok.borrow() {
            *self.out.borrow_mut() = self.next.borrow().clone();
            *self.updates.borrow_mut() += 1;
            Ok(())
        } else {
            Err(Error::Other(8))
        }
    }
}
/// a motor that records the voltages it is set to
struct Motor {
    data: SettableData<f32, E>,
    got: Rc<RefCell<Vec<f32>>>,
}
impl Settable<f32, E> for Motor {
    fn impl_set(&mut self, value: f32) -> NothingOrError<E> {
        self.got.borrow_mut().push(value);
        Ok(())
    }
    fn get_settable_data_ref(&self) -> &SettableData<f32, E> {
        &self.data
    }
    fn get_settable_data_mut(&mut self) -> &mut SettableData<f32, E> {
        &mut self.data
    }
}
impl Updatable<E> for Motor {
    fn update(&mut self) -> NothingOrError<E> {
        self.update_following_data()
    }
}

type Bad = Option<(usize, String, Value, Value)>;

fn write_ext(ext: Term, a: &Value, now: &mut i64, c: &C) {
    // mirrors WriteState / WriteCmd of the specification: the value is a function of the (new) time
    *now += 1;
    let t = *now;
    let sv = |t: i64| State::new_raw(c.v(&json!([2 * t - 3, 1])), c.v(&json!([4 - t, 1])), c.v(&json!([t.rem_euclid(3) - 1, 1])));
    match s(a, "op") {
        "state" => {
            let _ = ext.borrow_mut().set(Datum::new(c.t(t), sv(t)));
        }
        "stale" => {
            // a late reading: new value, stamped two ticks before this write (one tick before the previous one)
            let _ = ext.borrow_mut().set(Datum::new(c.t(t - 2), sv(t)));
        }
        "cmd" => {
            let _ = ext.borrow_mut().set(Datum::new(c.t(t), Command::new(pd(i(a, "k")), c.v(&json!([5 - 2 * t, 1])))));
        }
        _ => {
            let _ = ext.borrow_mut().set(Datum::new(c.t(t), sv(t)));
            let _ = ext.borrow_mut().set(Datum::new(c.t(t), Command::new(pd(i(a, "k")), c.v(&json!([5 - 2 * t, 1])))));
        }
    }
}
fn data_matches(exp: &Value, got: &TerminalData, c: &C) -> bool {
    let st_ok = match (exp["st"].as_array().unwrap().first(), got.state) {
        (None, None) => true,
        (Some(e), Some(g)) => {
            let w = c.state(e);
            w.position.to_bits() == g.position.to_bits() && w.velocity.to_bits() == g.velocity.to_bits() && w.acceleration.to_bits() == g.acceleration.to_bits()
        }
        _ => false,
    };
    let cm_ok = match (exp["cmd"].as_array().unwrap().first(), got.command) {
        (None, None) => true,
        (Some(e), Some(g)) => kind(g) == i(e, "k") && f32::from(g).to_bits() == c.v(&e["v"]).to_bits(),
        _ => false,
    };
    got.time == c.t(i(exp, "t")) && st_ok && cm_ok
}
fn data_json(d: &TerminalData) -> Value {
    json!({"t_ns": d.time.0, "cmd": d.command.map(|x| json!([kind(x), f32::from(x)])), "st": d.state.map(|s| json!([s.position, s.velocity, s.acceleration]))})
}

static ABANDONED: std::sync::atomic::AtomicU64 = std::sync::atomic::AtomicU64::new(0);

fn actuator(steps: &[Value], c: &C) -> Bad {
    let set_ok = Rc::new(RefCell::new(true));
    let upd_ok = Rc::new(RefCell::new(true));
    let received = Rc::new(RefCell::new(Vec::new()));
    let updates = Rc::new(RefCell::new(0u64));
    let w = leak(ActuatorWrapper::new(Actuator { data: SettableData::new(), set_ok: set_ok.clone(), upd_ok: upd_ok.clone(), received: received.clone(), updates: updates.clone() }));
    let ext: Term = leak(Terminal::<E>::new());
    connect(w.get_terminal(), ext);
    let mut now = 0i64;
    for (idx, st) in steps.iter().enumerate() {
        let a = &st["a"];
        let r: Result<NothingOrError<E>, String> = match s(a, "op") {
            "state" | "cmd" => {
                write_ext(ext, a, &mut now, c);
                Ok(Ok(()))
            }
            "setok" => {
                *set_ok.borrow_mut() = a["b"].as_bool().unwrap();
                Ok(Ok(()))
            }
            "updok" => {
                *upd_ok.borrow_mut() = a["b"].as_bool().unwrap();
                Ok(Ok(()))
            }
            _ => {
                // what the terminal shows right now, read independently: if the terminal's own combined read already deviates from the
                // specification, that is the terminal property's business (C09), not the wrapper's - the behaviour is abandoned
                let seen: Option<Datum<TerminalData>> = w.get_terminal().borrow().get().ok().flatten();
                let spec_seen = st["seen"].as_array().unwrap().first();
                let agrees = match (spec_seen, &seen) {
                    (None, None) => true,
                    (Some(e), Some(d)) => data_matches(e, &d.value, c),
                    _ => false,
                };
                if !agrees {
                    ABANDONED.fetch_add(1, std::sync::atomic::Ordering::Relaxed);
                    return None;
                }
                catch(|| w.update())
            }
        };
        if !ret_matches(&st["ret"], &r) {
            return Some((idx, "return value of ActuatorWrapper::update".into(), st["ret"].clone(), ret_json(&r)));
        }
        let exp = st["obs"]["received"].as_array().unwrap();
        let got = received.borrow();
        let same = exp.len() == got.len() && exp.iter().zip(got.iter()).all(|(e, g)| data_matches(&e["data"], &g.0, c) && e["ok"].as_bool() == Some(g.1));
        if !same {
            return Some((idx, "data handed to the inner settable so far (must be exactly what the terminal showed at each update)".into(),
                         json!(exp), json!(got.iter().map(|g| data_json(&g.0)).collect::<Vec<_>>())));
        }
        if *updates.borrow() != st["obs"]["updates"].as_u64().unwrap() {
            return Some((idx, "number of updates of the inner settable".into(), st["obs"]["updates"].clone(), json!(*updates.borrow())));
        }
    }
    None
}

fn encoder(steps: &[Value], c: &C) -> Bad {
    let upd_ok = Rc::new(RefCell::new(true));
    let out: Rc<RefCell<Output<State, E>>> = Rc::new(RefCell::new(Ok(None)));
    let next: Rc<RefCell<Output<State, E>>> = Rc::new(RefCell::new(Ok(None)));
    let updates = Rc::new(RefCell::new(0u64));
    let w = leak(GetterStateDeviceWrapper::new(Encoder { upd_ok: upd_ok.clone(), next: next.clone(), out: out.clone(), updates: updates.clone() }));
    let ext: Term = leak(Terminal::<E>::new());
    connect(w.get_terminal(), ext);
    let mut now = 0i64;
    let sv = |t: i64| State::new_raw(c.v(&json!([2 * t - 3, 1])), c.v(&json!([4 - t, 1])), c.v(&json!([t.rem_euclid(3) - 1, 1])));
    for (idx, st) in steps.iter().enumerate() {
        let a = &st["a"];
        let r: Result<NothingOrError<E>, String> = match s(a, "op") {
            "getter" => {
                now += 1;
                *next.borrow_mut() = match s(a, "o") {
                    "err" => Err(mk_err(1)),
                    "none" => Ok(None),
                    "stale" => Ok(Some(Datum::new(c.t(0), sv(now)))),      // a reading stamped older than anything written before
                    _ => Ok(Some(Datum::new(c.t(now), sv(now)))),
                };
                Ok(Ok(()))
            }
            "updok" => {
                *upd_ok.borrow_mut() = a["b"].as_bool().unwrap();
                Ok(Ok(()))
            }
            _ => catch(|| w.update()),
        };
        if !ret_matches(&st["ret"], &r) {
            return Some((idx, "return value of GetterStateDeviceWrapper::update".into(), st["ret"].clone(), ret_json(&r)));
        }
        // the wrapper terminal's own state and what the connected terminal therefore reads
        let own: Option<Datum<State>> = w.get_terminal().borrow().get_last_request();
        let seen: Output<State, E> = ext.borrow().get();
        let exp = st["obs"]["own"].as_array().unwrap().first();
        let ok = match (exp, own) {
            (None, None) => true,
            (Some(e), Some(g)) => {
                let wv = c.state(&e["v"]);
                g.time == c.t(i(e, "t")) && g.value.position.to_bits() == wv.position.to_bits() && g.value.velocity.to_bits() == wv.velocity.to_bits()
                    && g.value.acceleration.to_bits() == wv.acceleration.to_bits()
            }
            _ => false,
        };
        if !ok || seen.as_ref().ok().map(|x| x.map(|d| (d.time, d.value.position.to_bits()))) != Some(own.map(|d| (d.time, d.value.position.to_bits()))) {
            return Some((idx, "state written into the wrapper's terminal (the getter's present state, unchanged; untouched when absent)".into(),
                         st["obs"]["own"].clone(), json!(own.map(|d| json!({"t_ns": d.time.0, "v": [d.value.position, d.value.velocity, d.value.acceleration]})))));
        }
        if *updates.borrow() != st["obs"]["updates"].as_u64().unwrap() {
            return Some((idx, "number of successful updates of the inner getter".into(), st["obs"]["updates"].clone(), json!(*updates.borrow())));
        }
    }
    None
}

fn gains(g: &[(f64, f64, f64)], tau: f64) -> PositionDerivativeDependentPIDKValues {
    let k = |x: (f64, f64, f64)| PIDKValues::new(x.0 as f32, (x.1 / tau) as f32, (x.2 * tau) as f32);
    PositionDerivativeDependentPIDKValues::new(k(g[0]), k(g[1]), k(g[2]))
}
fn same_f32(a: f32, b: f32) -> bool {
    a.to_bits() == b.to_bits() || (a.is_nan() && b.is_nan())
}

fn pid(steps: &[Value], c: &C) -> Bad {
    let got = Rc::new(RefCell::new(Vec::new()));
    let g = [(1.0, 2.0, 4.0), (2.0, 4.0, 1.0), (4.0, 1.0, 2.0)];
    let init_cmd = Command::new(pd(0), c.v(&json!([2, 1])));
    let init_state = c.state(&json!([[1, 1], [0, 1], [0, 1]]));
    let built = {
        let got = got.clone();
        let (t0, gv) = (c.t(0), gains(&g, c.tau()));
        catch(move || PIDWrapper::new(Motor { data: SettableData::new(), got }, t0, init_state, init_cmd, gv))
    };
    let w = match built {
        Ok(w) => leak(w),
        Err(p) => return Some((0, "PIDWrapper::new panicked".into(), json!("a wrapper"), json!(p))),
    };
    let ext: Term = leak(Terminal::<E>::new());
    connect(w.get_terminal(), ext);
    // the stand-alone controller: a real CommandPID fed the times, states and commands seen at the terminal
    let tin = Scripted::<State>::new();
    let mut twin = CommandPID::new(tin.getter.clone(), init_cmd, gains(&g, c.tau()));
    let mut twin_state = init_state;
    let mut twin_motor: Vec<f32> = vec![];
    let mut now = steps.first().and_then(|st| st["obs"]["start"].as_i64()).unwrap_or(0);
    for (idx, st) in steps.iter().enumerate() {
        let a = &st["a"];
        match s(a, "op") {
            "update" => {
                // what the terminal shows, read independently through the connected terminal pair
                let seen: Option<Datum<TerminalData>> = w.get_terminal().borrow().get().ok().flatten();
                let r = catch(|| w.update());
                if !ret_matches(&st["ret"], &r) {
                    return Some((idx, "return value of PIDWrapper::update".into(), st["ret"].clone(), ret_json(&r)));
                }
                if let Some(d) = seen {
                    if let Some(sv) = d.value.state {
                        twin_state = sv;
                    }
                    if let Some(cv) = d.value.command {
                        let _ = twin.set(cv);
                    }
                    tin.set(Ok(Some(Datum::new(d.value.time, twin_state))));
                    let _ = twin.update();
                }
                if let Ok(Some(o)) = twin.get() {
                    twin_motor.push(o.value);
                }
            }
            _ => write_ext(ext, a, &mut now, c),
        }
        // (1) the motor got exactly what the stand-alone controller produces, bit for bit
        let m = got.borrow();
        if m.len() != twin_motor.len() || !m.iter().zip(twin_motor.iter()).all(|(x, y)| same_f32(*x, *y)) {
            return Some((idx, "values handed to the motor vs a stand-alone CommandPID fed the same times, states and commands".into(), json!(twin_motor), json!(*m)));
        }
        // What the specification's own controller predicts for these values is C11's business (Streams.tla / PIDMath.tla are bound to the real
        // CommandPID there); C20 is exactly the comparison above, so a defect of the controller itself is not reported here.
    }
    None
}

fn main() {
    silence_panics();
    let args: Vec<String> = std::env::args().collect();
    if args.len() < 4 || args[1] != "replay" {
        eprintln!("usage: wrappers replay <behaviours.ndjson> <seed> [--only <line>]");
        std::process::exit(2);
    }
    let lines = read_lines(&args[2]);
    let only: Option<usize> = args.iter().position(|a| a == "--only").map(|p| args[p + 1].parse().unwrap());
    let mut rng = Rng::new(args[3].parse().unwrap_or(1));
    let mut concs = vec![C { base: 0, tick_pow2: 0, scale_pow2: 0 }, C { base: -9_000_000_000, tick_pow2: -3, scale_pow2: 2 }, C { base: 1 << 50, tick_pow2: 2, scale_pow2: -1 }];
    concs.push(C { base: rng.range(-(1 << 50), 1 << 50), tick_pow2: rng.range(-6, 4) as i32, scale_pow2: rng.range(-4, 4) as i32 });
    let mut rep = Report::new();
    for (ln, l) in lines.iter().enumerate() {
        if let Some(o) = only {
            if o != ln {
                continue;
            }
        }
        let beh: Value = serde_json::from_str(l).unwrap_or_else(|e| {
            eprintln!("bad line {ln}: {e}");
            std::process::exit(2)
        });
        let steps = beh["steps"].as_array().unwrap();
        rep.count("behaviours", 1);
        let wrote = steps.iter().position(|st| matches!(s(&st["a"], "op"), "state" | "cmd" | "both" | "getter"));
        if let Some(w) = wrote {
            if steps.iter().skip(w).any(|st| st["a"]["op"] == "update") {
                rep.count("nontrivial", 1);
            }
        }
        for c in &concs {
            rep.count("replays", 1);
            let r = match s(&beh, "family") {
                "actuator" => actuator(steps, c),
                "encoder" => encoder(steps, c),
                _ => pid(steps, c),
            };
            if let Some((step, what, exp, got)) = r {
                rep.mismatch(json!({"line": ln, "family": beh["family"], "step": step, "what": what, "exp": exp, "got": got, "conc": c.json()}));
                break;
            }
        }
    }
    rep.count("abandoned_terminal_read_deviates", ABANDONED.load(std::sync::atomic::Ordering::Relaxed));
    rep.finish();
}
