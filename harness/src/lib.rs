//! Shared pieces of the rrtk conformance harness: scripted getters, JSON helpers,
//! concretisation of abstract ticks / rationals, comparison relation, mismatch reporting.
#![allow(dead_code)]
use rrtk::*;
use serde_json::{json, Value};
use std::cell::RefCell;
use std::rc::Rc;

/// Error payload type used for every rrtk object in the harness.
pub type E = u8;

// ---------------------------------------------------------------------------------------------
// panic handling: a panic in the code under test is data
// ---------------------------------------------------------------------------------------------
pub fn silence_panics() {
    if std::env::var("VERIF_PANIC_VERBOSE").is_ok() {
        return;
    }
    std::panic::set_hook(Box::new(|_| {}));
}
pub fn catch<R>(f: impl FnOnce() -> R) -> Result<R, String> {
    match std::panic::catch_unwind(std::panic::AssertUnwindSafe(f)) {
        Ok(r) => Ok(r),
        Err(e) => {
            let msg = if let Some(s) = e.downcast_ref::<&str>() {
                s.to_string()
            } else if let Some(s) = e.downcast_ref::<String>() {
                s.clone()
            } else {
                "panic".to_string()
            };
            Err(msg)
        }
    }
}

// ---------------------------------------------------------------------------------------------
// scripted getters
// ---------------------------------------------------------------------------------------------
/// A getter whose output is whatever the harness last put in the shared cell.
pub struct CellGetter<T: Clone> {
    pub cell: Rc<RefCell<Output<T, E>>>,
    pub reads: Rc<RefCell<u64>>,
}
impl<T: Clone> Getter<T, E> for CellGetter<T> {
    fn get(&self) -> Output<T, E> {
        *self.reads.borrow_mut() += 1;
        self.cell.borrow().clone()
    }
}
impl<T: Clone> Updatable<E> for CellGetter<T> {
    fn update(&mut self) -> NothingOrError<E> {
        Ok(())
    }
}
pub struct Scripted<T: Clone> {
    pub cell: Rc<RefCell<Output<T, E>>>,
    pub reads: Rc<RefCell<u64>>,
    pub getter: Reference<CellGetter<T>>,
}
impl<T: Clone + 'static> Scripted<T> {
    pub fn new() -> Self {
        let cell = Rc::new(RefCell::new(Ok(None)));
        let reads = Rc::new(RefCell::new(0u64));
        let getter = rc_ref_cell_reference(CellGetter {
            cell: cell.clone(),
            reads: reads.clone(),
        });
        Scripted { cell, reads, getter }
    }
    pub fn set(&self, o: Output<T, E>) {
        *self.cell.borrow_mut() = o;
    }
    pub fn reads(&self) -> u64 {
        *self.reads.borrow()
    }
}
/// A time getter whose output is whatever the harness last put in the shared cell.
pub struct CellClock {
    pub cell: Rc<RefCell<TimeOutput<E>>>,
    pub reads: Rc<RefCell<u64>>,
}
impl TimeGetter<E> for CellClock {
    fn get(&self) -> TimeOutput<E> {
        *self.reads.borrow_mut() += 1;
        self.cell.borrow().clone()
    }
}
impl Updatable<E> for CellClock {
    fn update(&mut self) -> NothingOrError<E> {
        Ok(())
    }
}
pub struct ScriptedClock {
    pub cell: Rc<RefCell<TimeOutput<E>>>,
    pub reads: Rc<RefCell<u64>>,
    pub getter: Reference<CellClock>,
}
impl ScriptedClock {
    pub fn new() -> Self {
        let cell = Rc::new(RefCell::new(Ok(Time(0))));
        let reads = Rc::new(RefCell::new(0u64));
        let getter = rc_ref_cell_reference(CellClock {
            cell: cell.clone(),
            reads: reads.clone(),
        });
        ScriptedClock { cell, reads, getter }
    }
    pub fn set(&self, o: TimeOutput<E>) {
        *self.cell.borrow_mut() = o;
    }
    pub fn reads(&self) -> u64 {
        *self.reads.borrow()
    }
}

// ---------------------------------------------------------------------------------------------
// JSON helpers
// ---------------------------------------------------------------------------------------------
pub fn rat(v: &Value) -> f64 {
    // a plain JSON number is accepted too (recorder-side parameters are arbitrary floats)
    if let Some(x) = v.as_f64() {
        return x;
    }
    let n = v[0].as_i64().expect("rat num") as f64;
    let d = v[1].as_i64().expect("rat den") as f64;
    n / d
}
pub fn s<'a>(v: &'a Value, k: &str) -> &'a str {
    v[k].as_str().unwrap_or_else(|| panic!("missing string field {k} in {v}"))
}
pub fn i(v: &Value, k: &str) -> i64 {
    v[k].as_i64().unwrap_or_else(|| panic!("missing int field {k} in {v}"))
}
pub fn err_code<T>(e: &Error<T>) -> i64
where
    T: Copy + core::fmt::Debug + Into<i64>,
{
    match e {
        Error::Other(x) => (*x).into(),
        Error::FromNone => 100,
        _ => 101,
    }
}
pub fn mk_err(e: i64) -> Error<E> {
    if e == 100 {
        Error::FromNone
    } else {
        Error::Other(e as u8)
    }
}

// ---------------------------------------------------------------------------------------------
// concretisation of abstract time and values
// ---------------------------------------------------------------------------------------------
#[derive(Clone, Copy, Debug)]
pub struct Conc {
    /// timestamp of tick 0, in nanoseconds
    pub base: i64,
    /// tick length is 2^tick_pow2 seconds
    pub tick_pow2: i32,
    /// every sample value is multiplied by 2^scale_pow2
    pub scale_pow2: i32,
}
impl Conc {
    pub fn tick_ns(&self) -> i64 {
        // 1e9 * 2^k ns; k >= -9 keeps it an integer
        if self.tick_pow2 >= 0 {
            1_000_000_000i64 << self.tick_pow2
        } else {
            1_000_000_000i64 >> (-self.tick_pow2)
        }
    }
    pub fn tau(&self) -> f64 {
        2f64.powi(self.tick_pow2)
    }
    pub fn vscale(&self) -> f64 {
        2f64.powi(self.scale_pow2)
    }
    pub fn time(&self, ticks: i64) -> Time {
        Time(self.base + ticks * self.tick_ns())
    }
    pub fn val(&self, r: &Value) -> f32 {
        (rat(r) * self.vscale()) as f32
    }
    pub fn to_json(&self) -> Value {
        json!({"base": self.base, "tick_pow2": self.tick_pow2, "scale_pow2": self.scale_pow2})
    }
    pub fn from_json(v: &Value) -> Conc {
        Conc {
            base: i(v, "base"),
            tick_pow2: i(v, "tick_pow2") as i32,
            scale_pow2: i(v, "scale_pow2") as i32,
        }
    }
}

// ---------------------------------------------------------------------------------------------
// observations
// ---------------------------------------------------------------------------------------------
/// What a `get()` showed, projected to plain data.
#[derive(Clone, Debug, PartialEq)]
pub enum Obs {
    Err(i64),
    Absent,
    Present { t: i64, vals: Vec<f32> },
    Panic(String),
}
impl Obs {
    pub fn to_json(&self) -> Value {
        match self {
            Obs::Err(e) => json!({"c":"err","e":e}),
            Obs::Absent => json!({"c":"none"}),
            Obs::Present { t, vals } => {
                json!({"c":"some","t_ns":t,"vals":vals.iter().map(|x| *x as f64).collect::<Vec<_>>(),
                       "bits": vals.iter().map(|x| x.to_bits()).collect::<Vec<_>>()})
            }
            Obs::Panic(m) => json!({"c":"panic","msg":m}),
        }
    }
    pub fn bits_eq(&self, o: &Obs) -> bool {
        match (self, o) {
            (Obs::Present { t: a, vals: x }, Obs::Present { t: b, vals: y }) => {
                a == b && x.len() == y.len() && x.iter().zip(y).all(|(p, q)| p.to_bits() == q.to_bits() || (*p == 0.0 && *q == 0.0))
            }
            _ => self == o,
        }
    }
}
pub fn obs_f32(o: Output<f32, E>) -> Obs {
    match o {
        Err(e) => Obs::Err(err_code(&e)),
        Ok(None) => Obs::Absent,
        Ok(Some(d)) => Obs::Present { t: d.time.0, vals: vec![d.value] },
    }
}
pub fn obs_q(o: Output<Quantity, E>) -> Obs {
    match o {
        Err(e) => Obs::Err(err_code(&e)),
        Ok(None) => Obs::Absent,
        Ok(Some(d)) => Obs::Present { t: d.time.0, vals: vec![d.value.value] },
    }
}
pub fn obs_state(o: Output<State, E>) -> Obs {
    match o {
        Err(e) => Obs::Err(err_code(&e)),
        Ok(None) => Obs::Absent,
        Ok(Some(d)) => Obs::Present {
            t: d.time.0,
            vals: vec![d.value.position, d.value.velocity, d.value.acceleration],
        },
    }
}
pub fn ret_json(r: &Result<NothingOrError<E>, String>) -> Value {
    match r {
        Ok(Ok(())) => json!({"c":"ok"}),
        Ok(Err(e)) => json!({"c":"err","e":err_code(e)}),
        Err(m) => json!({"c":"panic","msg":m}),
    }
}
/// Does the observed return value match the predicted `ret` record?
pub fn ret_matches(exp: &Value, got: &Result<NothingOrError<E>, String>) -> bool {
    match (s(exp, "c"), got) {
        ("ok", Ok(Ok(()))) => true,
        ("err", Ok(Err(e))) => err_code(e) == i(exp, "e"),
        ("panic", Err(_)) => true,
        _ => false,
    }
}

// ---------------------------------------------------------------------------------------------
// comparison relation (DESIGN 2.4)
// ---------------------------------------------------------------------------------------------
/// Numeric agreement in the exact domain: |got - exp| <= 2^-16 * max(|exp|, mag).
pub fn close(got: f32, exp: f64, mag: f64) -> bool {
    let g = got as f64;
    if !g.is_finite() {
        return false;
    }
    let tol = (exp.abs().max(mag)) * (1.0 / 65536.0) + 1e-30;
    (g - exp).abs() <= tol
}

/// Units: only comparable when dimension checking is compiled in.
#[cfg(feature = "dimcheck")]
pub fn unit_is(u: Unit, m: i64, s: i64) -> bool {
    u == Unit::new(m as i8, s as i8)
}
#[cfg(not(feature = "dimcheck"))]
pub fn unit_is(_u: Unit, _m: i64, _s: i64) -> bool {
    true
}
#[cfg(feature = "dimcheck")]
pub fn unit_exps(u: Unit) -> Option<(i8, i8)> {
    for m in i8::MIN..=i8::MAX {
        for s in i8::MIN..=i8::MAX {
            if u == Unit::new(m, s) {
                return Some((m, s));
            }
        }
    }
    None
}
#[cfg(not(feature = "dimcheck"))]
pub fn unit_exps(_u: Unit) -> Option<(i8, i8)> {
    None
}
pub const DIMCHECK: bool = cfg!(feature = "dimcheck");

// ---------------------------------------------------------------------------------------------
// ordered f32 keys (adjacent floats differ by 1; -0 canonicalised to +0)
// ---------------------------------------------------------------------------------------------
pub fn f32_key(x: f32) -> i64 {
    // every NaN has the same key: sign and payload of a NaN depend on how the compiler orders the operands of an addition or
    // multiplication and carry no meaning
    if x.is_nan() {
        return 0x7FC0_0000;
    }
    let x = if x == 0.0 { 0.0f32 } else { x };
    let b = x.to_bits();
    if b & 0x8000_0000 != 0 {
        -((b & 0x7fff_ffff) as i64)
    } else {
        b as i64
    }
}

// ---------------------------------------------------------------------------------------------
// deterministic PRNG (splitmix64) - keeps the harness free of extra crates
// ---------------------------------------------------------------------------------------------
#[derive(Clone)]
pub struct Rng(pub u64);
impl Rng {
    pub fn new(seed: u64) -> Self {
        Rng(seed.wrapping_mul(0x9E3779B97F4A7C15).wrapping_add(0x1234_5678_9abc_def1))
    }
    pub fn next(&mut self) -> u64 {
        self.0 = self.0.wrapping_add(0x9E3779B97F4A7C15);
        let mut z = self.0;
        z = (z ^ (z >> 30)).wrapping_mul(0xBF58476D1CE4E5B9);
        z = (z ^ (z >> 27)).wrapping_mul(0x94D049BB133111EB);
        z ^ (z >> 31)
    }
    pub fn below(&mut self, n: u64) -> u64 {
        self.next() % n
    }
    pub fn range(&mut self, lo: i64, hi: i64) -> i64 {
        lo + (self.next() % ((hi - lo + 1) as u64)) as i64
    }
    pub fn unit(&mut self) -> f64 {
        (self.next() >> 11) as f64 / (1u64 << 53) as f64
    }
    /// a "moderate" finite f32 with random sign, mantissa and exponent in [-lo_exp, hi_exp]
    pub fn float(&mut self, lo_exp: i32, hi_exp: i32) -> f32 {
        let e = self.range(lo_exp as i64, hi_exp as i64) as i32;
        let m = 1.0 + self.unit();
        let sgn = if self.next() & 1 == 0 { 1.0 } else { -1.0 };
        (sgn * m * 2f64.powi(e)) as f32
    }
    pub fn pick<'a, T>(&mut self, xs: &'a [T]) -> &'a T {
        &xs[self.below(xs.len() as u64) as usize]
    }
}

// ---------------------------------------------------------------------------------------------
// mismatch reporting: one JSON line per mismatch on stdout, summary at the end
// ---------------------------------------------------------------------------------------------
pub struct Report {
    pub mismatches: u64,
    pub max_print: u64,
    pub counters: std::collections::BTreeMap<String, u64>,
}
impl Report {
    pub fn new() -> Self {
        Report { mismatches: 0, max_print: 40, counters: Default::default() }
    }
    pub fn mismatch(&mut self, v: Value) {
        self.mismatches += 1;
        if self.mismatches <= self.max_print {
            println!("MISMATCH {}", v);
        }
    }
    pub fn count(&mut self, k: &str, n: u64) {
        *self.counters.entry(k.to_string()).or_insert(0) += n;
    }
    pub fn finish(&self) {
        let mut m = serde_json::Map::new();
        for (k, v) in &self.counters {
            m.insert(k.clone(), json!(v));
        }
        m.insert("mismatches".into(), json!(self.mismatches));
        println!("SUMMARY {}", Value::Object(m));
    }
}

pub fn read_lines(path: &str) -> Vec<String> {
    let txt = std::fs::read_to_string(path).unwrap_or_else(|e| {
        eprintln!("cannot read {path}: {e}");
        std::process::exit(2)
    });
    txt.lines().filter(|l| !l.trim().is_empty()).map(|l| l.to_string()).collect()
}

// ---------------------------------------------------------------------------------------------
// named unit constants of the tree under verification (generated by build.rs)
// ---------------------------------------------------------------------------------------------
include!(concat!(env!("OUT_DIR"), "/unit_consts.rs"));

// ---------------------------------------------------------------------------------------------
// the power function of the configuration the harness was built for, called directly
// (rrtk prefers std over libm over micromath)
// ---------------------------------------------------------------------------------------------
#[cfg(feature = "cfg_std")]
pub fn config_powf(x: f32, y: f32) -> f32 {
    x.powf(y)
}
#[cfg(all(feature = "cfg_libm", not(feature = "cfg_std")))]
pub fn config_powf(x: f32, y: f32) -> f32 {
    libm::powf(x, y)
}
#[cfg(all(feature = "cfg_micromath", not(feature = "cfg_std"), not(feature = "cfg_libm")))]
pub fn config_powf(x: f32, y: f32) -> f32 {
    micromath::F32Ext::powf(x, y)
}
