// Generates the table of named unit constants from rrtk's own source, so that the check of the
// constant grammar (C01) always sees the constants that exist in the tree being verified.
use std::io::Write;
fn main() {
    let src = "/repo/src/dimensions/constants.rs";
    println!("cargo:rerun-if-changed={src}");
    let text = std::fs::read_to_string(src).unwrap_or_default();
    let mut names = Vec::new();
    for line in text.lines() {
        let l = line.trim();
        if let Some(rest) = l.strip_prefix("pub const ") {
            if let Some(pos) = rest.find(':') {
                let (name, ty) = rest.split_at(pos);
                if ty.trim_start_matches(':').trim().starts_with("Unit") {
                    names.push(name.trim().to_string());
                }
            }
        }
    }
    let out = std::path::Path::new(&std::env::var("OUT_DIR").unwrap()).join("unit_consts.rs");
    let mut f = std::fs::File::create(out).unwrap();
    writeln!(f, "pub const UNIT_CONSTS: &[(&str, rrtk::Unit)] = &[").unwrap();
    for n in names {
        writeln!(f, "    (\"{n}\", rrtk::{n}),").unwrap();
    }
    writeln!(f, "];").unwrap();
}
