--------------------------- MODULE RefThreadsInd ---------------------------
(***************************************************************************)
(* The locked variant of RefThreads.tla with an inductive invariant, for   *)
(* Apalache: for N threads and ANY number K of rounds (any history length) *)
(* the lock gives mutual exclusion and no increment is lost.  `total' is a *)
(* ghost counter of completed rounds.  TLC explores RefThreads for         *)
(* (N, K) in {(2,2), (3,2), (2,3)}; Apalache checks                         *)
(*    Init => IndInv       and      IndInv /\ Next => IndInv'              *)
(* symbolically for N = 4 and every K in 1..1000, and IndInv => the two    *)
(* safety properties.                                                      *)
(***************************************************************************)
EXTENDS Integers, FiniteSets, Apalache

CONSTANTS
  \* @type: Int;
  N,
  \* @type: Int;
  K

VARIABLES
  \* @type: Int;
  value,
  \* @type: Int;
  lock,
  \* @type: Int -> Str;
  pc,
  \* @type: Int -> Int;
  tmp,
  \* @type: Int -> Int;
  cnt,
  \* @type: Int;
  total

Threads == 1..4          \* N is fixed to 4 by ConstInit (Apalache needs a constant range)

ConstInit == N = 4 /\ K \in 1..1000

Init == /\ value = 0 /\ lock = 0 /\ total = 0
        /\ pc = [t \in Threads |-> "acquire"]
        /\ tmp = [t \in Threads |-> 0]
        /\ cnt = [t \in Threads |-> 0]

Acquire(t) == /\ pc[t] = "acquire"
              /\ lock = 0
              /\ lock' = t
              /\ pc' = [pc EXCEPT ![t] = "read"]
              /\ UNCHANGED <<value, tmp, cnt, total>>
ReadV(t) == /\ pc[t] = "read"
            /\ tmp' = [tmp EXCEPT ![t] = value]
            /\ pc' = [pc EXCEPT ![t] = "write"]
            /\ UNCHANGED <<value, lock, cnt, total>>
WriteV(t) == /\ pc[t] = "write"
             /\ value' = tmp[t] + 1
             /\ pc' = [pc EXCEPT ![t] = "release"]
             /\ UNCHANGED <<lock, tmp, cnt, total>>
Release(t) == /\ pc[t] = "release"
              /\ lock' = 0
              /\ cnt' = [cnt EXCEPT ![t] = @ + 1]
              /\ total' = total + 1
              /\ pc' = [pc EXCEPT ![t] = IF cnt[t] + 1 = K THEN "done" ELSE "acquire"]
              /\ UNCHANGED <<value, tmp>>
Next == \E t \in Threads : Acquire(t) \/ ReadV(t) \/ WriteV(t) \/ Release(t)

InCritical(t) == pc[t] \in {"read", "write", "release"}
SumCnt == cnt[1] + cnt[2] + cnt[3] + cnt[4]

IndInv ==
  /\ lock \in 0..4
  /\ \A t \in Threads : pc[t] \in {"acquire", "read", "write", "release", "done"}
  /\ \A t \in Threads : (0 <= cnt[t] /\ cnt[t] <= K)
  /\ \A t \in Threads : (pc[t] = "done" <=> cnt[t] = K)
  /\ \A t \in Threads : (InCritical(t) <=> lock = t)                       \* the lock holder, and only it, is in its critical section
  /\ total = SumCnt
  /\ value = total + (IF \E t \in Threads : pc[t] = "release" THEN 1 ELSE 0)  \* the increment becomes visible at the write
  /\ \A t \in Threads : (pc[t] = "write" => tmp[t] = value)                   \* what the holder read is still current

(* an arbitrary state satisfying the invariant (the start of the inductive step) *)
IndInit ==
  /\ value \in Int /\ total \in Int /\ lock \in 0..4
  /\ pc \in [Threads -> {"acquire", "read", "write", "release", "done"}]
  /\ tmp \in [Threads -> Int]
  /\ cnt \in [Threads -> Int]
  /\ IndInv

MutualExclusion == \A a \in Threads : \A b \in Threads : (InCritical(a) /\ InCritical(b)) => a = b
NoLostUpdate == (\A t \in Threads : pc[t] = "done") => value = 4 * K
Safety == MutualExclusion /\ NoLostUpdate
=============================================================================
