--------------------------- MODULE MotionProfile ---------------------------
(***************************************************************************)
(* rrtk's trapezoidal MotionProfile.                                       *)
(*                                                                         *)
(* Part 1 (C06), the phase automaton: the six accessors (piece, mode,      *)
(* acceleration, velocity, position, history) only COMPARE the query time  *)
(* with 0, t1, t2, t3, so what they must agree on is a function of four    *)
(* Booleans  lt0 = (t < 0), lt1 = (t < t1), lt2 = (t < t2), lt3 = (t < t3) *)
(* and of the kind of the end command.                                     *)
(*                                                                         *)
(* Part 2 (C07), an independent reference trapezoid in exact rationals:    *)
(* a move is given by direction sg, speed limit vm, acceleration limit am, *)
(* start position x0 and the three phase durations k (initial             *)
(* acceleration), d2 (constant velocity), m (end acceleration) in ticks;   *)
(* start / end velocities and the end position follow.  The reference is   *)
(* written phase by phase (p(t) = p(tk) + v(tk)(t-tk) + a (t-tk)^2 / 2),   *)
(* not with the crate's closed forms.  A negative duration means the       *)
(* request is infeasible and the constructor must panic.                   *)
(***************************************************************************)
EXTENDS Integers, Sequences, FiniteSets, TLC, Json, Rat, Outcome, ProfilePhases

CONSTANTS Rich, Emit
VARIABLE case
vars == <<case>>

-----------------------------------------------------------------------------
(* Part 1: the phase automaton lives in module ProfilePhases (shared with the trace specification ProfileTrace) *)
-----------------------------------------------------------------------------
(* Part 2: the reference trapezoid *)
Sg(s, x) == IF s = 1 THEN x ELSE RNeg(x)
Move(sg, vm, am, x0, k, d2, m, ae) ==
  LET v1 == Sg(sg, vm)                                   \* cruise velocity
      a == Sg(sg, am)
      v0 == RSub(v1, RMul(a, RI(k)))                      \* so that the initial acceleration lasts k ticks
      ve == RSub(v1, RMul(a, RI(m)))                      \* so that the end acceleration lasts m ticks
      p1 == RAdd(x0, RHalf(RMul(RAdd(v0, v1), RI(k))))
      p2 == RAdd(p1, RMul(v1, RI(d2)))
      xe == RAdd(p2, RHalf(RMul(RAdd(v1, ve), RI(m))))
  IN  [sg |-> sg, vm |-> vm, am |-> am, x0 |-> x0, v0 |-> v0, ve |-> ve, xe |-> xe, ae |-> ae, a |-> a, v1 |-> v1,
       p1 |-> p1, p2 |-> p2, t1 |-> k, t2 |-> k + d2, t3 |-> k + d2 + m, k |-> k, d2 |-> d2, m |-> m]
Infeasible(mv) == mv.k < 0 \/ mv.d2 < 0 \/ mv.m < 0
EndKind(mv) == IF ~IsZero(mv.ae) THEN 2 ELSE IF ~IsZero(mv.ve) THEN 1 ELSE 0
(* the direction the constructor will choose from the requested positions *)
CodeSign(mv) == IF RLt(mv.xe, mv.x0) THEN -1 ELSE 1

(* reference values at h half-ticks after the start, 0 <= h <= 2 t3, phase by phase *)
HalfT(h) == R(h, 2)
RefAt(mv, h) ==
  LET t == HalfT(h)
  IN  IF h < 2 * mv.t1
      THEN [acc |-> mv.a, vel |-> RAdd(mv.v0, RMul(mv.a, t)),
            pos |-> RAdd(RAdd(mv.x0, RMul(mv.v0, t)), RHalf(RMul(mv.a, RMul(t, t))))]
      ELSE IF h < 2 * mv.t2
      THEN LET u == RSub(t, RI(mv.t1))
           IN  [acc |-> Zero, vel |-> mv.v1, pos |-> RAdd(mv.p1, RMul(mv.v1, u))]
      ELSE IF h < 2 * mv.t3
      THEN LET u == RSub(t, RI(mv.t2))
           IN  [acc |-> RNeg(mv.a), vel |-> RSub(mv.v1, RMul(mv.a, u)),
                pos |-> RSub(RAdd(mv.p2, RMul(mv.v1, u)), RHalf(RMul(mv.a, RMul(u, u))))]
      ELSE [acc |-> mv.ae, vel |-> mv.ve, pos |-> mv.xe]              \* complete: what the end command fixes
(* left limits at the joins, for continuity *)
EndOfPhase1(mv) == [vel |-> RAdd(mv.v0, RMul(mv.a, RI(mv.t1))),
                    pos |-> RAdd(RAdd(mv.x0, RMul(mv.v0, RI(mv.t1))), RHalf(RMul(mv.a, RI(mv.t1 * mv.t1))))]
EndOfPhase3(mv) == LET u == RI(mv.m)
                   IN  [vel |-> RSub(mv.v1, RMul(mv.a, u)), pos |-> RSub(RAdd(mv.p2, RMul(mv.v1, u)), RHalf(RMul(mv.a, RMul(u, u))))]

RECURSIVE TrapInt(_, _)
TrapInt(mv, h) ==      \* trapezoid-rule integral of the reference velocity over the half-tick grid [0, h/2]
  IF h = 0 THEN Zero
  ELSE RAdd(TrapInt(mv, h - 1), RMul(R(1, 4), RAdd(RefAt(mv, h - 1).vel, IF h = 2 * mv.t3 THEN EndOfPhase3(mv).vel ELSE RefAt(mv, h).vel)))

Queries(mv) ==
  (* <<h, e, tag>>: instant h half-ticks + e nanoseconds; tag "min"/"max" = the i64 extremes *)
  {<<h, 0, "">> : h \in 0..(2 * mv.t3 + 2)} \cup
  {<<2 * b, e, "">> : b \in {0, mv.t1, mv.t2, mv.t3}, e \in {-1, 1}} \cup
  {<<-3, 0, "">>, <<-1, 0, "">>, <<0, 0, "min">>, <<0, 0, "max">>, <<2 * mv.t3 + 7, 0, "">>}
Lt(q, b) == IF q[3] = "min" THEN TRUE ELSE IF q[3] = "max" THEN FALSE ELSE (q[1] < 2 * b \/ (q[1] = 2 * b /\ q[2] < 0))
QueryObs(mv, q) ==
  LET p == PieceIdx(Lt(q, 0), Lt(q, mv.t1), Lt(q, mv.t2), Lt(q, mv.t3))
      e == EndKind(mv)
      onGrid == q[2] = 0 /\ q[3] = "" /\ q[1] >= 0
  IN  [h |-> q[1], e |-> q[2], tag |-> q[3], piece |-> p, mode |-> ModeOf(p, e), hasAcc |-> HasAcc(p, e), hasVel |-> HasVel(p, e),
       hasPos |-> HasPos(p, e),
       ref |-> IF onGrid THEN Just(RefAt(mv, IF q[1] > 2 * mv.t3 THEN 2 * mv.t3 ELSE q[1])) ELSE Nothing]

SetToSeq(S) == LET RECURSIVE F(_) F(T) == IF T = {} THEN <<>> ELSE LET x == CHOOSE y \in T : TRUE IN <<x>> \o F(T \ {x}) IN F(S)

(* The constructor converts t1..t3 from f32 seconds to whole nanoseconds.  n ticks (of 2^j s) are n * 5^9 * 2^(9+j) ns, which an f32 *)
(* holds exactly only when odd(n) * 5^9 < 2^24, i.e. odd(n) <= 7; for the other moves (a boundary at 9 ticks) the boundary itself is *)
(* rounded by up to 512 ns, which the exact family cannot predict: they are left to the recorded traces (ProfileTrace, ProfileNumTrace). *)
RECURSIVE OddPart(_)
OddPart(x) == IF x <= 0 THEN 1 ELSE IF x % 2 = 0 THEN OddPart(x \div 2) ELSE x
ExactNs(mv) == \A b \in {mv.t1, mv.t2, mv.t3} : OddPart(b) <= 7
Durs == IF Rich THEN {-1, 0, 1, 2, 3} ELSE {-1, 0, 1, 2}
Init ==
  \E sg \in {1, -1}, vm \in {One, RI(2), RI(3)} \cup (IF Rich THEN {R(3, 2)} ELSE {}), am \in {One} \cup (IF Rich THEN {R(1, 2)} ELSE {}),
     x0 \in {Zero, RI(-5)}, k \in Durs, d2 \in Durs \cup {4}, m \in Durs, ae \in {Zero, RI(1)} :
       LET mv == Move(sg, vm, am, x0, k, d2, m, ae)
       IN  /\ CodeSign(mv) = sg                       \* the constructor picks the direction from the positions
           /\ (Infeasible(mv) \/ ExactNs(mv))
           /\ case = [mv |-> mv, panic |-> Infeasible(mv), endkind |-> EndKind(mv),
                      queries |-> IF Infeasible(mv) THEN <<>> ELSE SetToSeq({QueryObs(mv, q) : q \in Queries(mv)})]
Next == UNCHANGED case
Spec == Init /\ [][Next]_vars

(* Laws of the reference: it is a valid trapezoid *)
RefLaws ==
  LET mv == case.mv
  IN  ~case.panic =>
        /\ RefAt(mv, 0).vel = mv.v0 /\ RefAt(mv, 0).pos = mv.x0                                     \* starts at the start state
        /\ EndOfPhase1(mv).vel = mv.v1 /\ EndOfPhase1(mv).pos = mv.p1                               \* continuity at t1
        /\ (mv.d2 > 0 => RefAt(mv, 2 * mv.t2 - 1).vel = mv.v1)                                       \* ... and at t2
        /\ EndOfPhase3(mv).vel = mv.ve /\ EndOfPhase3(mv).pos = mv.xe                               \* reaches the goal: end velocity and end position
        /\ \A h \in 0..(2 * mv.t3) :
              LET r == RefAt(mv, h)
              IN  /\ (h < 2 * mv.t3 => r.acc \in {mv.a, Zero, RNeg(mv.a)})                           \* +-max_acc or 0, sign of the displacement
                  /\ (h < 2 * mv.t3 => RLe(RAbs(r.vel), RMax(mv.vm, RMax(RAbs(mv.v0), RAbs(mv.ve)))))  \* never exceeds the limits
                  /\ (h < 2 * mv.t3 => RSub(r.pos, mv.x0) = TrapInt(mv, h))                          \* position is the integral of the velocity
        /\ RSub(mv.xe, mv.x0) = TrapInt(mv, 2 * mv.t3)
        /\ (mv.d2 >= 1 => ~case.panic)                                                              \* a comfortably long move is accepted
(* negating all positions and velocities negates every output exactly *)
NegLaw ==
  LET mv == case.mv
      ng == Move(-mv.sg, mv.vm, mv.am, RNeg(mv.x0), mv.k, mv.d2, mv.m, RNeg(mv.ae))
  IN  ~case.panic =>
        /\ ng.v0 = RNeg(mv.v0) /\ ng.ve = RNeg(mv.ve) /\ ng.xe = RNeg(mv.xe)
        /\ \A h \in 0..(2 * mv.t3) : /\ RefAt(ng, h).vel = RNeg(RefAt(mv, h).vel)
                                     /\ RefAt(ng, h).pos = RNeg(RefAt(mv, h).pos)
                                     /\ RefAt(ng, h).acc = RNeg(RefAt(mv, h).acc)
Laws == MonotonePieces /\ ModeLaw /\ RefLaws /\ NegLaw

EmitInv == Emit => PrintT(<<"B", ToJson(case)>>)
=============================================================================
