-------------------------- MODULE RefThreadsTrace --------------------------
(***************************************************************************)
(* Trace validation of concurrent increments through rrtk References (C17).*)
(* Real threads each build a Reference over one shared Arc (or leaked      *)
(* lock) and increment the shared counter under borrow_mut, logging under  *)
(* the guard (thread, per-thread sequence number, old, new).  The counter  *)
(* value itself is the linearisation order, so the recorder merges the     *)
(* per-thread logs sorted by `new'.  Each event must be one critical       *)
(* section of RefThreads (read old = the current value, write old + 1) and *)
(* at the end the counter is N * K: no update was lost.                    *)
(***************************************************************************)
EXTENDS Integers, Sequences, TLC, Json, IOUtils

Rec == ndJsonDeserialize(IOEnv.TRACE)

VARIABLES l, value, seq, run
vars == <<l, value, seq, run>>

IsEvent(k) == l <= Len(Rec) /\ Rec[l].k = k /\ l' = l + 1

Start == /\ IsEvent("start")
         /\ value' = 0
         /\ seq' = [t \in 1..Rec[l].n |-> 0]
         /\ run' = [n |-> Rec[l].n, kk |-> Rec[l].kk]
(* one critical section: Acquire; Read; Write; Release of RefThreads, composed *)
Inc == /\ IsEvent("inc")
       /\ Rec[l].th \in 1..run.n
       /\ Rec[l].old = value
       /\ Rec[l].new = value + 1
       /\ Rec[l].seq = seq[Rec[l].th] + 1
       /\ value' = value + 1
       /\ seq' = [seq EXCEPT ![Rec[l].th] = @ + 1]
       /\ UNCHANGED run
End == /\ IsEvent("end")
       /\ Rec[l].total = value
       /\ value = run.n * run.kk
       /\ \A t \in 1..run.n : seq[t] = run.kk
       /\ UNCHANGED <<value, seq, run>>

TraceInit == l = 1 /\ value = 0 /\ seq = <<>> /\ run = [n |-> 0, kk |-> 0]
TraceNext == Start \/ Inc \/ End
TraceSpec == TraceInit /\ [][TraceNext]_vars

TraceAccepted ==
  LET d == TLCGet("stats").diameter
  IN  IF d - 1 = Len(Rec) THEN TRUE
      ELSE /\ PrintT("M|first unmatched event|" \o ToString(d) \o "|" \o ToJson(Rec[d]))
           /\ FALSE
=============================================================================
