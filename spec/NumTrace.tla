------------------------------ MODULE NumTrace ------------------------------
(***************************************************************************)
(* The smallest trace specification: a log of numeric comparisons that     *)
(* need real arithmetic.  The recorder evaluates a textbook formula in f64 *)
(* on arbitrary inputs and logs, per comparison, the error of the          *)
(* implementation's f32 result and a bound proportional to f32 epsilon     *)
(* times the magnitudes involved (both as integers, scaled alike); TLC     *)
(* consumes an event only when error <= bound.  Used for State::update on  *)
(* arbitrary floats and on intervals of ODD nanosecond counts (C14), which *)
(* the exact family of Kinematics.tla (whole power-of-two ticks) cannot    *)
(* reach.                                                                  *)
(***************************************************************************)
EXTENDS Integers, Sequences, TLC, Json, IOUtils

Rec == ndJsonDeserialize(IOEnv.TRACE)
VARIABLE l
Cmp == /\ l <= Len(Rec) /\ Rec[l].k = "b" /\ Rec[l].err <= Rec[l].bound /\ l' = l + 1
TraceInit == l = 1
TraceSpec == TraceInit /\ [][Cmp]_l
TraceAccepted ==
  LET d == TLCGet("stats").diameter
  IN  IF d - 1 = Len(Rec) THEN TRUE
      ELSE /\ PrintT("M|first unmatched event|" \o ToString(d) \o "|" \o ToJson(Rec[d]))
           /\ FALSE
=============================================================================
