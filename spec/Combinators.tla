---------------------------- MODULE Combinators ----------------------------
(***************************************************************************)
(* The stateless combinator streams of rrtk as outcome functions, written  *)
(* from their documentation and truth tables:                              *)
(*   SumN, Sum2, ProductN, Product2, Difference, Quotient, Exponent,       *)
(*   Latest, Expirer, If, IfElse, NoneToError, NoneToValue, And, Or, Not,  *)
(*   NoneGetter, ConstantGetter                                            *)
(* An input outcome is Err(e) | Absent | Some(t, v) where t is a timestamp *)
(* rank and v identifies the value: for numeric streams the index of the   *)
(* input (the harness binds indices to random floats and evaluates the     *)
(* predicted term with plain f32 operators), for logic streams a Boolean.  *)
(* A predicted numeric value is a term [op, args].                         *)
(*                                                                         *)
(* A case is one assignment of outcomes to the inputs (plus clock outcome  *)
(* and expiry limit where relevant).  Every case is an initial state; TLC  *)
(* evaluates the laws on it and prints the case with the predicted output. *)
(*                                                                         *)
(* The n-ary sum / product are additionally modelled slot by slot (the     *)
(* MaybeUninit scratch array, its fill counter and the fold loop) to show  *)
(* that only initialised slots are read (C16).                             *)
(***************************************************************************)
EXTENDS Integers, Sequences, FiniteSets, TLC, Json, Outcome

CONSTANTS Combs,      \* combinators explored by this run
          MaxArity,   \* arities 1..MaxArity for the n-ary streams
          Wide,       \* TRUE: outcomes {Err1, Err2, Absent, Some(t)}, t in 3 ranks; FALSE: {Err1, Absent, Some(position)}
          Emit

VARIABLE case
vars == <<case>>

Ranks == {1, 2, 3}
Term(op, args) == [op |-> op, args |-> args]
Val(i) == Term("id", <<i>>)

NumOutcomes(i) == IF Wide THEN ErrOutcomes \cup {Absent} \cup {Some(t, Val(i)) : t \in Ranks}
                  ELSE {Err(1), Absent, Some(i, Val(i))}
BoolOutcomes == ErrOutcomes \cup {Absent} \cup {Some(t, b) : t \in {1, 2}, b \in BOOLEAN}
ClockOutcomes == {Err(1)} \cup {[c |-> "time", t |-> t] : t \in {1, 2, 3, 4}}

NAry == {"SumN", "ProductN", "Latest"}
Binary == {"Sum2", "Product2", "Difference", "Quotient", "Exponent"}

RECURSIVE Tuples(_)
Tuples(n) == IF n = 0 THEN {<<>>} ELSE {Append(f, o) : f \in Tuples(n - 1), o \in NumOutcomes(n)}

Cases(k) ==
  CASE k \in NAry -> {[comb |-> k, ins |-> f] : f \in UNION {Tuples(n) : n \in 1..MaxArity}}
    [] k \in Binary -> {[comb |-> k, ins |-> f] : f \in Tuples(2)}
    [] k = "Expirer" -> {[comb |-> k, ins |-> <<a>>, clock |-> c, limit |-> 1] :
                            a \in ErrOutcomes \cup {Absent, Some(1, Val(1)), Some(2, Val(1))}, c \in ClockOutcomes}
    [] k = "If" -> {[comb |-> k, cond |-> b, ins |-> f] : b \in BoolOutcomes, f \in Tuples(1)}
    [] k = "IfElse" -> {[comb |-> k, cond |-> b, ins |-> f] : b \in BoolOutcomes, f \in Tuples(2)}
    [] k = "NoneToError" -> {[comb |-> k, ins |-> f] : f \in Tuples(1)}
    [] k = "NoneToValue" -> {[comb |-> k, ins |-> f, clock |-> c] : f \in Tuples(1), c \in ClockOutcomes}
    [] k \in {"And", "Or"} -> {[comb |-> k, bins |-> <<a, b>>] : a \in BoolOutcomes, b \in BoolOutcomes}
    [] k = "Not" -> {[comb |-> k, bins |-> <<a>>] : a \in BoolOutcomes}
    [] k = "NoneGetter" -> {[comb |-> k]}
    [] k = "ConstantGetter" -> {[comb |-> k, clock |-> c] : c \in ClockOutcomes}

-----------------------------------------------------------------------------
(* helpers *)
RECURSIVE FirstErr(_, _)
FirstErr(f, i) == IF i > Len(f) THEN Nothing ELSE IF IsErr(f[i]) THEN Just(f[i]) ELSE FirstErr(f, i + 1)
Present(f) == SelectSeq([i \in 1..Len(f) |-> i], LAMBDA i : IsSome(f[i]))      \* indices of present inputs, in order
RECURSIVE MaxTime(_, _, _)
MaxTime(f, idx, i) == IF i = 0 THEN -1 ELSE MaxI(MaxTime(f, idx, i - 1), f[idx[i]].t)
Newest(a, b) == IF b.t > a.t THEN b ELSE a       \* the first of two equally new

(* n-ary sum / product: first error in input order wins; absent inputs are skipped; all absent -> absent; *)
(* present values are folded left to right; the newest contributing time is kept. *)
NFold(op, f) ==
  LET e == FirstErr(f, 1)
      p == Present(f)
  IN  IF IsJust(e) THEN The(e)
      ELSE IF Len(p) = 0 THEN Absent
      ELSE Some(MaxTime(f, p, Len(p)), Term(op, p))

(* two-input sum / product *)
Fold2(op, f) ==
  IF IsErr(f[1]) THEN f[1]
  ELSE IF IsAbsent(f[1]) THEN f[2]                         \* whatever the second input returns
  ELSE IF IsErr(f[2]) THEN f[2]
  ELSE IF IsAbsent(f[2]) THEN f[1]
  ELSE Some(MaxI(f[1].t, f[2].t), Term(op, <<1, 2>>))

(* difference / quotient / exponent: an input error wins (first operand first) even over an absent first operand; *)
(* first absent -> absent; second absent -> the first passed through *)
Asym(op, f) ==
  IF IsErr(f[1]) THEN f[1]
  ELSE IF IsErr(f[2]) THEN f[2]
  ELSE IF IsAbsent(f[1]) THEN Absent
  ELSE IF IsAbsent(f[2]) THEN f[1]
  ELSE Some(MaxI(f[1].t, f[2].t), Term(op, <<1, 2>>))

(* newest-of: errors and absent inputs are ignored; the first of the newest wins *)
RECURSIVE LatestUpTo(_, _)
LatestUpTo(f, i) ==
  IF i = 0 THEN Absent
  ELSE LET p == LatestUpTo(f, i - 1)
       IN  IF ~IsSome(f[i]) THEN p ELSE IF IsAbsent(p) THEN f[i] ELSE Newest(p, f[i])

Expire(a, c, limit) ==
  IF IsErr(a) THEN a
  ELSE IF IsAbsent(a) THEN Absent                          \* the clock is not consulted
  ELSE IF c.c = "err" THEN c
  ELSE IF c.t - a.t > limit THEN Absent ELSE a             \* kept when the age equals the limit

IfS(b, f) == IF IsErr(b) THEN b ELSE IF IsSome(b) /\ b.v THEN f[1] ELSE Absent      \* absent condition counts as false
IfElseS(b, f) == IF IsErr(b) THEN b ELSE IF IsAbsent(b) THEN Absent ELSE IF b.v THEN f[1] ELSE f[2]

FromNone == Err(100)
NoneToErr(a) == IF IsAbsent(a) THEN FromNone ELSE a
NoneToVal(a, c) == IF ~IsAbsent(a) THEN a ELSE IF c.c = "err" THEN c ELSE Some(c.t, Term("default", <<>>))

(* three-valued logic: the documented 9-row tables ... *)
TV(o) == IF IsAbsent(o) THEN "U" ELSE IF o.v THEN "T" ELSE "F"
AndTable(x, y) ==
  CASE x = "F" /\ y = "F" -> "F" [] x = "U" /\ y = "F" -> "F" [] x = "T" /\ y = "F" -> "F"
    [] x = "F" /\ y = "U" -> "F" [] x = "U" /\ y = "U" -> "U" [] x = "T" /\ y = "U" -> "U"
    [] x = "F" /\ y = "T" -> "F" [] x = "U" /\ y = "T" -> "U" [] x = "T" /\ y = "T" -> "T"
OrTable(x, y) ==
  CASE x = "F" /\ y = "F" -> "F" [] x = "U" /\ y = "F" -> "U" [] x = "T" /\ y = "F" -> "T"
    [] x = "F" /\ y = "U" -> "U" [] x = "U" /\ y = "U" -> "U" [] x = "T" /\ y = "U" -> "T"
    [] x = "F" /\ y = "T" -> "T" [] x = "U" /\ y = "T" -> "T" [] x = "T" /\ y = "T" -> "T"
(* ... and strong Kleene logic over F < U < T *)
KRank(x) == CASE x = "F" -> 0 [] x = "U" -> 1 [] x = "T" -> 2
KVal(r) == CASE r = 0 -> "F" [] r = 1 -> "U" [] r = 2 -> "T"
AndKleene(x, y) == KVal(MinI(KRank(x), KRank(y)))
OrKleene(x, y) == KVal(MaxI(KRank(x), KRank(y)))
NotKleene(x) == KVal(2 - KRank(x))

Logic2(tbl(_, _), a, b) ==
  IF IsErr(a) THEN a
  ELSE IF IsErr(b) THEN b
  ELSE LET r == tbl(TV(a), TV(b))
           t == IF IsSome(a) /\ IsSome(b) THEN MaxI(a.t, b.t) ELSE IF IsSome(a) THEN a.t ELSE IF IsSome(b) THEN b.t ELSE -1
       IN  IF r = "U" THEN Absent ELSE Some(t, r = "T")
NotS(a) == IF IsSome(a) THEN Some(a.t, ~a.v) ELSE a

Out(cs) ==
  CASE cs.comb = "SumN" -> NFold("add", cs.ins)
    [] cs.comb = "ProductN" -> NFold("mul", cs.ins)
    [] cs.comb = "Latest" -> LatestUpTo(cs.ins, Len(cs.ins))
    [] cs.comb = "Sum2" -> Fold2("add", cs.ins)
    [] cs.comb = "Product2" -> Fold2("mul", cs.ins)
    [] cs.comb = "Difference" -> Asym("sub", cs.ins)
    [] cs.comb = "Quotient" -> Asym("div", cs.ins)
    [] cs.comb = "Exponent" -> Asym("pow", cs.ins)
    [] cs.comb = "Expirer" -> Expire(cs.ins[1], cs.clock, cs.limit)
    [] cs.comb = "If" -> IfS(cs.cond, cs.ins)
    [] cs.comb = "IfElse" -> IfElseS(cs.cond, cs.ins)
    [] cs.comb = "NoneToError" -> NoneToErr(cs.ins[1])
    [] cs.comb = "NoneToValue" -> NoneToVal(cs.ins[1], cs.clock)
    [] cs.comb = "And" -> Logic2(AndTable, cs.bins[1], cs.bins[2])
    [] cs.comb = "Or" -> Logic2(OrTable, cs.bins[1], cs.bins[2])
    [] cs.comb = "Not" -> NotS(cs.bins[1])
    [] cs.comb = "NoneGetter" -> Absent
    [] cs.comb = "ConstantGetter" -> IF cs.clock.c = "err" THEN cs.clock ELSE Some(cs.clock.t, Term("const", <<>>))

-----------------------------------------------------------------------------
(* Slot-level model of SumStream::get / ProductStream::get (C16).          *)
(* slots: array of N cells, 0 (uninitialised) until written; filled: fill counter.  *)
RECURSIVE FillLoop(_, _, _, _)
FillLoop(f, i, slots, filled) ==
  IF i > Len(f) THEN [slots |-> slots, filled |-> filled, err |-> Nothing]
  ELSE IF IsErr(f[i]) THEN [slots |-> slots, filled |-> filled, err |-> Just(f[i])]       \* `?' returns at the first error
  ELSE IF IsSome(f[i]) THEN FillLoop(f, i + 1, [slots EXCEPT ![filled + 1] = i], filled + 1)
  ELSE FillLoop(f, i + 1, slots, filled)
SlotRun(f) == FillLoop(f, 1, [i \in 1..Len(f) |-> 0], 0)
(* the fold reads slot 1 and then other_outputs[0 .. filled-2], i.e. slots 2 .. filled *)
SlotReads(f) == LET r == SlotRun(f) IN IF IsJust(r.err) \/ r.filled = 0 THEN {} ELSE 1..r.filled
SlotSafe(f) ==
  LET r == SlotRun(f)
  IN  /\ r.filled <= Len(f)
      /\ \A j \in SlotReads(f) : j <= Len(f) /\ r.slots[j] # 0
(* the values read, in order, are exactly the present inputs in order: the slot algorithm refines NFold *)
SlotRefines(f) ==
  LET r == SlotRun(f)
  IN  IF IsJust(r.err) THEN NFold("add", f) = The(r.err)
      ELSE IF r.filled = 0 THEN NFold("add", f) = Absent
      ELSE NFold("add", f).v.args = [j \in 1..r.filled |-> r.slots[j]]

-----------------------------------------------------------------------------
Init == \E k \in Combs : case \in Cases(k)
Next == UNCHANGED case
Spec == Init /\ [][Next]_vars

(* Laws *)
KleeneLaw ==
  \A x, y \in {"F", "U", "T"} : AndTable(x, y) = AndKleene(x, y) /\ OrTable(x, y) = OrKleene(x, y)
(* De Morgan duality for all outcome pairs including errors *)
DeMorgan ==
  case.comb \in {"And", "Or"} =>
     LET a == case.bins[1]
         b == case.bins[2]
     IN  /\ NotS(Logic2(AndTable, a, b)) = Logic2(OrTable, NotS(a), NotS(b))
         /\ NotS(Logic2(OrTable, a, b)) = Logic2(AndTable, NotS(a), NotS(b))
(* the two-input sum / product agree with the n-ary ones *)
TwoVsN ==
  (case.comb \in {"Sum2", "Product2"}) =>
     LET op == IF case.comb = "Sum2" THEN "add" ELSE "mul"
         two == Fold2(op, case.ins)
         n == NFold(op, case.ins)
     IN  \/ two = n
         \/ (IsSome(two) /\ IsSome(n) /\ two.t = n.t /\ Len(n.v.args) = 1 /\ two.v = Val(n.v.args[1]))  \* a single present input passed through
         \/ (IsAbsent(case.ins[1]) /\ IsErr(case.ins[2]) /\ two = n)
(* C03 at stream level: the result time is the newest contributing time / a selected candidate is not older than any other *)
TimeLaw ==
  LET o == Out(case)
  IN  /\ (case.comb \in {"SumN", "ProductN"} /\ IsSome(o)) =>
           \A i \in 1..Len(case.ins) : IsSome(case.ins[i]) => case.ins[i].t <= o.t
      /\ (case.comb = "Latest") =>
           /\ (IsSome(o) => \E i \in 1..Len(case.ins) : case.ins[i] = o)
           /\ \A i \in 1..Len(case.ins) : IsSome(case.ins[i]) => (IsSome(o) /\ case.ins[i].t <= o.t)
SlotLaw == case.comb \in {"SumN", "ProductN"} => (SlotSafe(case.ins) /\ SlotRefines(case.ins))

Laws == KleeneLaw /\ DeMorgan /\ TwoVsN /\ TimeLaw /\ SlotLaw

EmitInv == Emit => PrintT(<<"B", ToJson([case |-> case, out |-> Out(case)])>>)
=============================================================================
