--------------------------- MODULE ConnectBorrow ---------------------------
(***************************************************************************)
(* rrtk::connect at the granularity of RefCell borrows (C09: connect and   *)
(* disconnect never panic).  Terminals live in RefCells; Terminal::        *)
(* disconnect mutably borrows the partner's cell, and a second mutable     *)
(* borrow of a cell that is already borrowed panics.                       *)
(*                                                                         *)
(* Legacy = TRUE is the step order of the pinned code (borrow both cells,  *)
(* then disconnect each while both are borrowed): TLC finds the panic for  *)
(* connect(a, b) when a and b are already linked to each other.            *)
(* Legacy = FALSE is the repaired order (disconnect each terminal under    *)
(* its own short borrow, then borrow both and link): no panic is           *)
(* reachable and every call refines the atomic link algebra of             *)
(* Devices.tla (ConnectL / Unlink).                                        *)
(***************************************************************************)
EXTENDS Integers, FiniteSets, TLC, TerminalLinks

CONSTANTS NT, Legacy
Terms == 1..NT

VARIABLES link, panicked
vars == <<link, panicked>>

(* the atomic specification: Unlink and ConnectL of module TerminalLinks (shared with Devices.tla) *)

(* Terminal::disconnect called on x while the cells in `held' are mutably borrowed: borrows the partner's cell *)
DisconnectUnder(l, held, x) ==
  IF l[x] = 0 THEN [l |-> l, panic |-> FALSE]
  ELSE IF l[x] \in held THEN [l |-> l, panic |-> TRUE]              \* "already borrowed"
  ELSE [l |-> Unlink(l, x), panic |-> FALSE]

ConnectSteps(l, a, b) ==
  IF Legacy
  THEN LET d1 == DisconnectUnder(l, {a, b}, a)                        \* both cells are held while disconnecting
           d2 == DisconnectUnder(d1.l, {a, b}, b)
       IN  IF d1.panic \/ d2.panic THEN [l |-> l, panic |-> TRUE]
           ELSE [l |-> [d2.l EXCEPT ![a] = b, ![b] = a], panic |-> FALSE]
  ELSE LET d1 == DisconnectUnder(l, {a}, a)                           \* each under its own short borrow
           d2 == DisconnectUnder(d1.l, {b}, b)
       IN  IF d1.panic \/ d2.panic THEN [l |-> l, panic |-> TRUE]
           ELSE [l |-> [d2.l EXCEPT ![a] = b, ![b] = a], panic |-> FALSE]

Init == link = [x \in Terms |-> 0] /\ panicked = FALSE
Connect(a, b) == /\ a # b /\ ~panicked
                 /\ LET r == ConnectSteps(link, a, b)
                    IN  link' = r.l /\ panicked' = r.panic
Disconnect(a) == /\ ~panicked
                 /\ LET r == DisconnectUnder(link, {a}, a)
                    IN  link' = r.l /\ panicked' = r.panic
Next == (\E a, b \in Terms : Connect(a, b)) \/ (\E a \in Terms : Disconnect(a))
Spec == Init /\ [][Next]_vars

NoPanic == ~panicked
Matching == \A x \in Terms : link[x] # 0 => (link[x] # x /\ link[link[x]] = x)
(* every borrow-level step is a step of the atomic link algebra *)
RefinesAtomic ==
  [][~panicked' => (\/ \E a, b \in Terms : a # b /\ link' = ConnectL(link, a, b)
                    \/ \E a \in Terms : link' = Unlink(link, a))]_vars
=============================================================================
