----------------------------- MODULE Kinematics -----------------------------
(***************************************************************************)
(* rrtk's State (position, velocity, acceleration) and Command (a kind     *)
(* 0 = position, 1 = velocity, 2 = acceleration and a value):              *)
(*   update under constant acceleration, the constant-derivative setters   *)
(*   with their dimension check, command-from-state, the command           *)
(*   accessors and conversions, component-wise arithmetic.                 *)
(* Values are exact rationals; time is in ticks (the harness uses several  *)
(* tick lengths by rescaling velocity and acceleration).                   *)
(***************************************************************************)
EXTENDS Integers, Sequences, TLC, Json, Rat, Outcome

CONSTANTS Family, DimCheck, Emit
VARIABLE case
vars == <<case>>

V == {RI(-2), Zero, RI(1), RI(3)}
Triples == {<<p, v, a>> : p \in V, v \in V, a \in V}
Few == {<<RI(1), RI(3), RI(-2)>>, <<RI(-2), Zero, Zero>>, <<Zero, Zero, Zero>>, <<RI(3), RI(1), Zero>>, <<Zero, RI(-2), RI(1)>>}
Dts == {-4, -1, 0, 1, 2}
Grid == {<<m, s>> : m \in -3..3, s \in -3..3}
PDUnit(k) == <<1, -k>>

(* State::update(dt) *)
Upd(s, dt) ==
  LET d == RI(dt)
      nv == RAdd(s[2], RMul(d, s[3]))
      np == RAdd(s[1], RHalf(RMul(d, RAdd(s[2], nv))))
  IN  <<np, nv, s[3]>>
(* the textbook form, for the law below *)
UpdTextbook(s, dt) ==
  LET d == RI(dt)
  IN  <<RAdd(RAdd(s[1], RMul(s[2], d)), RHalf(RMul(s[3], RMul(d, d)))), RAdd(s[2], RMul(s[3], d)), s[3]>>

(* set_constant_{position, velocity, acceleration}: which = 0, 1, 2 *)
SetConst(s, which, x) ==
  CASE which = 0 -> <<x, Zero, Zero>>
    [] which = 1 -> <<s[1], x, Zero>>
    [] which = 2 -> <<s[1], s[2], x>>
Accepts(which, u) == (~DimCheck) \/ u = PDUnit(which)

(* Command::from(State): the lowest non-zero derivative *)
CmdOfState(s) == IF ~IsZero(s[3]) THEN [k |-> 2, v |-> s[3]] ELSE IF ~IsZero(s[2]) THEN [k |-> 1, v |-> s[2]] ELSE [k |-> 0, v |-> s[1]]
(* accessors of a command *)
CmdPos(c) == IF c.k = 0 THEN Just(c.v) ELSE Nothing
CmdVel(c) == CASE c.k = 0 -> Just(Zero) [] c.k = 1 -> Just(c.v) [] c.k = 2 -> Nothing
CmdAcc(c) == IF c.k = 2 THEN c.v ELSE Zero

SAdd(a, b) == <<RAdd(a[1], b[1]), RAdd(a[2], b[2]), RAdd(a[3], b[3])>>
SSub(a, b) == <<RSub(a[1], b[1]), RSub(a[2], b[2]), RSub(a[3], b[3])>>
SMul(a, r) == <<RMul(a[1], r), RMul(a[2], r), RMul(a[3], r)>>
SDiv(a, r) == <<RDiv(a[1], r), RDiv(a[2], r), RDiv(a[3], r)>>
SNeg(a) == <<RNeg(a[1]), RNeg(a[2]), RNeg(a[3])>>
Scalars == {RI(-2), R(1, 2), RI(3)}

Init ==
  CASE Family = "update" ->
         \E s \in Triples, dt \in Dts : case = [family |-> "update", s |-> s, dt |-> dt, res |-> Upd(s, dt)]
    [] Family = "setter" ->
         \E s \in Few, which \in 0..2, u \in Grid, raw \in BOOLEAN, x \in {RI(5), Zero} :
            /\ (raw => u = PDUnit(which))
            /\ LET ok == raw \/ Accepts(which, u)
               IN  case = [family |-> "setter", s |-> s, which |-> which, u |-> u, raw |-> raw, x |-> x, ok |-> ok,
                           res |-> IF ok THEN SetConst(s, which, x) ELSE s]
    [] Family = "cmd" ->
         \/ \E s \in Triples : case = [family |-> "cmd", form |-> "from_state", s |-> s, res |-> CmdOfState(s)]
         \/ \E k \in 0..2, x \in V :
               LET c == [k |-> k, v |-> x]
               IN  case = [family |-> "cmd", form |-> "accessors", c |-> c, pos |-> CmdPos(c), vel |-> CmdVel(c), acc |-> CmdAcc(c), unit |-> PDUnit(k)]
         \/ \E s \in Few : case = [family |-> "cmd", form |-> "state_getters", s |-> s]
         \/ \E which \in 0..2, u \in Grid : case = [family |-> "cmd", form |-> "state_new", which |-> which, u |-> u, panic |-> DimCheck /\ u # PDUnit(which)]
    [] Family = "arith" ->
         \/ \E a \in Few, b \in Few, f \in {"add", "sub"}, asg \in BOOLEAN :
               case = [family |-> "arith", on |-> "state", form |-> f, assign |-> asg, a |-> a, b |-> b,
                       res |-> IF f = "add" THEN SAdd(a, b) ELSE SSub(a, b)]
         \/ \E a \in Few, r \in Scalars, f \in {"mul", "div"}, asg \in BOOLEAN :
               case = [family |-> "arith", on |-> "state", form |-> f, assign |-> asg, a |-> a, r |-> r,
                       res |-> IF f = "mul" THEN SMul(a, r) ELSE SDiv(a, r)]
         \/ \E a \in Few : case = [family |-> "arith", on |-> "state", form |-> "neg", assign |-> FALSE, a |-> a, res |-> SNeg(a)]
         \/ \E k1 \in 0..2, k2 \in 0..2, x \in {RI(3), RI(-2)}, y \in {RI(1), R(1, 2)}, f \in {"add", "sub"}, asg \in BOOLEAN :
               case = [family |-> "arith", on |-> "command", form |-> f, assign |-> asg, a |-> [k |-> k1, v |-> x], b |-> [k |-> k2, v |-> y],
                       panic |-> k1 # k2, res |-> [k |-> k1, v |-> IF f = "add" THEN RAdd(x, y) ELSE RSub(x, y)]]
         \/ \E k1 \in 0..2, x \in {RI(3), RI(-2)}, r \in Scalars, f \in {"mul", "div"}, asg \in BOOLEAN :
               case = [family |-> "arith", on |-> "command", form |-> f, assign |-> asg, a |-> [k |-> k1, v |-> x], r |-> r,
                       panic |-> FALSE, res |-> [k |-> k1, v |-> IF f = "mul" THEN RMul(x, r) ELSE RDiv(x, r)]]
         \/ \E k1 \in 0..2, x \in {RI(3), RI(-2), Zero} :
               case = [family |-> "arith", on |-> "command", form |-> "neg", assign |-> FALSE, a |-> [k |-> k1, v |-> x],
                       panic |-> FALSE, res |-> [k |-> k1, v |-> RNeg(x)]]
    [] Family = "chain" ->      \* setter -> update -> command-from-state
         \E s \in Few, which \in 0..2, x \in {RI(5), Zero}, dt \in {-1, 0, 2} :
            LET s1 == SetConst(s, which, x)
                s2 == Upd(s1, dt)
            IN  case = [family |-> "chain", s |-> s, which |-> which, x |-> x, dt |-> dt, s1 |-> s1, s2 |-> s2, cmd |-> CmdOfState(s2)]

Next == UNCHANGED case
Spec == Init /\ [][Next]_vars

Laws ==
  /\ (Family = "update") =>
        /\ case.res = UpdTextbook(case.s, case.dt)                           \* v' = v + a dt, p' = p + v dt + a dt^2 / 2
        /\ (case.dt = 0 => case.res = case.s)                                \* zero is the identity
        /\ Upd(case.res, -case.dt) = case.s                                  \* advancing back returns position and velocity
        /\ case.res[3] = case.s[3]
  /\ (Family = "setter" /\ ~case.ok) => case.res = case.s
  /\ (Family = "setter" /\ case.ok /\ case.which = 0) => (IsZero(case.res[2]) /\ IsZero(case.res[3]))
  /\ (Family = "setter" /\ case.ok /\ case.which = 1) => IsZero(case.res[3])
  /\ (Family = "cmd" /\ case.form = "from_state") =>
        LET c == case.res
        IN  /\ c.v = case.s[c.k + 1]
            /\ \A j \in (c.k + 1)..2 : IsZero(case.s[j + 1])                 \* every higher derivative is zero
            /\ (c.k < 2 /\ c.k > 0 => ~IsZero(c.v))
  /\ (Family = "cmd" /\ case.form = "accessors") =>
        /\ (IsJust(case.pos) <=> case.c.k = 0)
        /\ (IsJust(case.vel) <=> case.c.k <= 1)

EmitInv == Emit => PrintT(<<"B", ToJson([dimcheck |-> DimCheck, case |-> case])>>)
=============================================================================
