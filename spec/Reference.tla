----------------------------- MODULE Reference -----------------------------
(***************************************************************************)
(* rrtk's Reference<T>: handles onto one shared object.  A handle is       *)
(* obtained by cloning another handle or by converting one with to_dyn!    *)
(* (which consumes it and yields a trait-object handle).  Whatever handle  *)
(* writes, every live handle reads the value last written; the object is   *)
(* dropped exactly when the variant is reference counted and the last      *)
(* handle is gone (raw-pointer variants point to leaked / static targets). *)
(***************************************************************************)
EXTENDS Integers, Sequences, FiniteSets, TLC, Json, Outcome

CONSTANTS MaxLen, MaxHandles, Emit

Variants   == {"Ptr", "RcRefCell", "PtrRwLock", "PtrMutex", "ArcRwLock", "ArcMutex"}
RefCounted == {"RcRefCell", "ArcRwLock", "ArcMutex"}
DynListed  == {"Ptr", "RcRefCell", "PtrRwLock"}        \* the variants to_dyn! lists

VARIABLES variant, value, alive, handles, hist, n
vars == <<variant, value, alive, handles, hist, n>>

(* handles: sequence of "c" (concrete), "d" (trait object) or "x" (gone); ids are positions *)
Live(h) == {i \in 1..Len(h) : h[i] # "x"}
Init == /\ variant \in Variants
        /\ value = 0
        /\ alive = TRUE
        /\ handles = <<"c">>
        /\ hist = <<>>
        /\ n = 0

Rec(a) == IF Emit THEN Append(hist, [a |-> a, value |-> value', dropped |-> ~alive', live |-> handles']) ELSE hist

Clone(i) ==
  /\ i \in Live(handles) /\ Cardinality(Live(handles)) < MaxHandles
  /\ handles' = Append(handles, handles[i])
  /\ UNCHANGED <<value, alive, variant>>
  /\ hist' = Rec([op |-> "clone", h |-> i])
ToDyn(i) ==          \* consumes handle i, yields a trait-object handle onto the same object
  /\ i \in Live(handles) /\ handles[i] = "c" /\ variant \in DynListed
  /\ handles' = Append([handles EXCEPT ![i] = "x"], "d")
  /\ UNCHANGED <<value, alive, variant>>
  /\ hist' = Rec([op |-> "to_dyn", h |-> i, outcome |-> "converted"])
(* On the variants to_dyn! does not list the outcome is unspecified: the macro may refuse (the documented unimplemented!() panic; *)
(* the handle that was moved in is gone) or convert; if it converts, the result must be a handle like any other.               *)
ToDynOther(i, outcome) ==
  /\ i \in Live(handles) /\ handles[i] = "c" /\ variant \notin DynListed
  /\ handles' = IF outcome = "converted" THEN Append([handles EXCEPT ![i] = "x"], "d") ELSE [handles EXCEPT ![i] = "x"]
  /\ alive' = IF variant \in RefCounted /\ Live(handles') = {} THEN FALSE ELSE alive
  /\ UNCHANGED <<value, variant>>
  /\ hist' = Rec([op |-> "to_dyn", h |-> i, outcome |-> outcome])
Write(i, v) ==
  /\ i \in Live(handles)
  /\ value' = v
  /\ UNCHANGED <<handles, alive, variant>>
  /\ hist' = Rec([op |-> "write", h |-> i, v |-> v])
Read(i) ==
  /\ i \in Live(handles)
  /\ UNCHANGED <<value, handles, alive, variant>>
  /\ hist' = Rec([op |-> "read", h |-> i])
DropH(i) ==
  /\ i \in Live(handles)
  /\ handles' = [handles EXCEPT ![i] = "x"]
  /\ alive' = IF variant \in RefCounted /\ Live(handles') = {} THEN FALSE ELSE alive
  /\ UNCHANGED <<value, variant>>
  /\ hist' = Rec([op |-> "drop", h |-> i])

Next == /\ n < MaxLen /\ n' = n + 1
        /\ \E i \in 1..Len(handles) :
              \/ Clone(i) \/ ToDyn(i) \/ Read(i) \/ DropH(i)
              \/ ToDynOther(i, "refused") \/ ToDynOther(i, "converted")
              \/ Write(i, n + 1)            \* every write is distinguishable
Spec == Init /\ [][Next]_vars

(* the target stays alive as long as any handle exists *)
AliveLaw == (Live(handles) # {}) => alive
DropLaw == (~alive) <=> (variant \in RefCounted /\ Live(handles) = {})
Laws == AliveLaw /\ DropLaw

EmitInv == (Emit /\ (n = MaxLen \/ Live(handles) = {})) => PrintT(<<"B", ToJson([variant |-> variant, steps |-> hist])>>)
=============================================================================
