---------------------------- MODULE ProfileTrace ----------------------------
(***************************************************************************)
(* Trace validation of MotionProfile accessors (C06) on arbitrary          *)
(* constructor arguments and arbitrary query times.                        *)
(*                                                                         *)
(* The recorder (harness `profile record') draws random start / end        *)
(* states and limits, logs whether the constructor panicked, recovers the  *)
(* phase boundaries by bisection on get_piece, and then logs, for a sorted *)
(* batch of query times (boundaries +-1 ns, interior points, negative      *)
(* times, the i64 extremes), the four comparisons with the boundaries and  *)
(* what each accessor showed.  Every logged query must be explained by the *)
(* phase automaton of ProfilePhases; pieces must never go back as t grows. *)
(***************************************************************************)
EXTENDS Integers, Sequences, TLC, Json, IOUtils, ProfilePhases

Rec == ndJsonDeserialize(IOEnv.TRACE)

VARIABLES l, endKind, lastPiece, alive
vars == <<l, endKind, lastPiece, alive>>

IsEvent(k) == l <= Len(Rec) /\ Rec[l].k = k /\ l' = l + 1

(* a new profile: the constructor either panicked or returned a profile whose end command has kind endkind *)
NewProfile ==
  /\ IsEvent("profile")
  /\ alive' = ~Rec[l].panic
  /\ endKind' = Rec[l].endkind
  /\ lastPiece' = 0
Query ==
  /\ IsEvent("q")
  /\ alive
  /\ LET r == Rec[l]
         p == PieceIdx(r.lt0, r.lt1, r.lt2, r.lt3)
     IN  /\ (r.lt0 => r.lt1) /\ (r.lt1 => r.lt2) /\ (r.lt2 => r.lt3)          \* 0 <= t1 <= t2 <= t3
         /\ r.piece = p
         /\ r.mode = ModeOf(p, endKind)
         /\ r.hasAcc = HasAcc(p, endKind)
         /\ r.hasVel = HasVel(p, endKind)
         /\ r.hasPos = HasPos(p, endKind)
         /\ r.histKind = HistKind(p, endKind)       \* a command of exactly the mode (-1: absent)
         /\ r.histTimeOk                             \* stamped with the query time
         /\ r.histBitsOk                             \* value bit-identical to the matching accessor; once complete: the end state's lowest non-zero derivative
         /\ p >= lastPiece                           \* queries are sorted by time: pieces never go back
         /\ lastPiece' = p
  /\ UNCHANGED <<endKind, alive>>

TraceInit == l = 1 /\ endKind = 0 /\ lastPiece = 0 /\ alive = FALSE
TraceNext == NewProfile \/ Query
TraceSpec == TraceInit /\ [][TraceNext]_vars

TraceAccepted ==
  LET d == TLCGet("stats").diameter
  IN  IF d - 1 = Len(Rec) THEN TRUE
      ELSE /\ PrintT("M|first unmatched event|" \o ToString(d) \o "|" \o ToJson(Rec[d]))
           /\ FALSE
=============================================================================
