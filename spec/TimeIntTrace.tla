---------------------------- MODULE TimeIntTrace ----------------------------
(***************************************************************************)
(* Trace validation of the Time <-> Quantity conversions (C18) on          *)
(* arbitrary 64-bit times and arbitrary f32 seconds.                       *)
(*                                                                         *)
(* The abstract specification of the conversion is a relation, not a       *)
(* function: converting a time yields an f32 within 2 ulp of ns / 1e9,     *)
(* the conversion is monotone in the time, converting seconds back yields  *)
(* value * 1e9 within one f32 rounding and 1 ns of truncation, and the     *)
(* round trip stays within |t| * 2^-22 + 1 ns.  The recorder (harness      *)
(* `timeint record') logs, per conversion of a SORTED batch of times, the  *)
(* ordered integer key of the f32 result (adjacent floats differ by 1),    *)
(* the key of the correctly rounded quotient (computed in exact 128-bit    *)
(* integer arithmetic) and the integer errors / bounds; TLC checks each    *)
(* logged step against the relation.                                       *)
(***************************************************************************)
EXTENDS Integers, Sequences, TLC, Json, IOUtils

Rec == ndJsonDeserialize(IOEnv.TRACE)

VARIABLES l, lastKey
vars == <<l, lastKey>>

AbsI(x) == IF x < 0 THEN -x ELSE x
IsEvent(k) == l <= Len(Rec) /\ Rec[l].k = k /\ l' = l + 1

(* the abstract conversion relation *)
TimeToQuantityOk(key, ref, prevKey) == key <= ref + 2 /\ ref <= key + 2 /\ (IF prevKey = <<>> THEN TRUE ELSE prevKey[1] <= key)
WithinBound(err, bound) == err <= bound

Reset == IsEvent("reset") /\ lastKey' = <<>>
T2Q == /\ IsEvent("t2q")
       /\ Rec[l].unit_ok
       /\ TimeToQuantityOk(Rec[l].key, Rec[l].ref, lastKey)
       /\ WithinBound(Rec[l].rt_err, Rec[l].rt_bound)
       /\ lastKey' = <<Rec[l].key>>
Q2T == /\ IsEvent("q2t")
       /\ WithinBound(Rec[l].err, Rec[l].bound)
       /\ UNCHANGED lastKey

TraceInit == l = 1 /\ lastKey = <<>>
TraceNext == Reset \/ T2Q \/ Q2T
TraceSpec == TraceInit /\ [][TraceNext]_vars

(* the whole trace was consumed; otherwise print the first event no action explains *)
TraceAccepted ==
  LET d == TLCGet("stats").diameter
  IN  IF d - 1 = Len(Rec) THEN TRUE
      ELSE /\ PrintT("M|first unmatched event|" \o ToString(d) \o "|" \o ToJson(Rec[d]))
           /\ FALSE
=============================================================================
