--------------------------- MODULE ProfilePhases ---------------------------
(***************************************************************************)
(* The phase automaton of rrtk's MotionProfile (C06): what the six         *)
(* accessors must agree on, as a function of the four comparisons          *)
(*   lt0 = (t < 0), lt1 = (t < t1), lt2 = (t < t2), lt3 = (t < t3)         *)
(* and of the kind of the end command (0 position, 1 velocity,             *)
(* 2 acceleration).  Pure definitions, shared by MotionProfile.tla and     *)
(* ProfileTrace.tla.                                                       *)
(***************************************************************************)
EXTENDS Integers
Pieces == <<"BeforeStart", "InitialAcceleration", "ConstantVelocity", "EndAcceleration", "Complete">>
PieceIdx(lt0, lt1, lt2, lt3) == IF lt0 THEN 0 ELSE IF lt1 THEN 1 ELSE IF lt2 THEN 2 ELSE IF lt3 THEN 3 ELSE 4
(* mode: -1 = absent, 0 position, 1 velocity, 2 acceleration *)
ModeOf(piece, endKind) == CASE piece = 0 -> -1 [] piece \in {1, 3} -> 2 [] piece = 2 -> 1 [] piece = 4 -> endKind
HasAcc(piece, endKind) == piece # 0
HasVel(piece, endKind) == piece \in {1, 2, 3} \/ (piece = 4 /\ endKind <= 1)       \* a position command implies velocity 0
HasPos(piece, endKind) == piece \in {1, 2, 3} \/ (piece = 4 /\ endKind = 0)
(* the history returns a command of exactly the mode, stamped with the query time *)
HistKind(piece, endKind) == ModeOf(piece, endKind)

(* pieces never go back as t grows: a later query cannot be in an earlier piece *)
Flags == {f \in [1..4 -> BOOLEAN] : (f[1] => f[2]) /\ (f[2] => f[3]) /\ (f[3] => f[4]) }      \* t < 0 => t < t1 => t < t2 => t < t3 when 0 <= t1 <= t2 <= t3
LaterOrEqual(f, g) == \A i \in 1..4 : g[i] => f[i]                                               \* g is a later instant than f
MonotonePieces == \A f \in Flags, g \in Flags : LaterOrEqual(f, g) => PieceIdx(f[1], f[2], f[3], f[4]) <= PieceIdx(g[1], g[2], g[3], g[4])
ModeLaw == \A f \in Flags, e \in 0..2 :
   LET p == PieceIdx(f[1], f[2], f[3], f[4])
   IN  /\ (ModeOf(p, e) = -1 <=> f[1])                                  \* absent exactly when t < 0
       /\ (ModeOf(p, e) = 2 => HasAcc(p, e)) /\ (ModeOf(p, e) = 1 => HasVel(p, e)) /\ (ModeOf(p, e) = 0 => HasPos(p, e))
       /\ (~f[4] => ModeOf(p, e) = e)                                   \* from completion onward: the end command's kind

=============================================================================
