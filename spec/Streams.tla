------------------------------ MODULE Streams ------------------------------
(***************************************************************************)
(* The stateful streams of rrtk as state machines over input events.       *)
(*                                                                         *)
(* One action per public call: `Update' (the stream reads its input once   *)
(* and changes state) and `Get' (a pure observation).  The input of a      *)
(* stream is an outcome: a present sample Some(t, v), Absent, or Err(e).   *)
(* Timestamps are abstract ticks; all formulas are written on differences  *)
(* of ticks, so a behaviour can be concretised with any base time and any  *)
(* tick length.  Values are exact rationals (module Rat).                  *)
(*                                                                         *)
(* Machines (variable `kind'):                                             *)
(*   PID        streams::control::PIDControllerStream                      *)
(*   CmdPID     streams::control::CommandPID                               *)
(*   CmdPIDF    the same controller while it follows a command getter      *)
(*              (update first forwards the getter's present command to     *)
(*              set; an error of the followed getter aborts the update)    *)
(*   EWMA/EWMAQ streams::control::EWMAStream  (f32 / Quantity variant)     *)
(*   MA/MAQ     streams::control::MovingAverageStream (f32 / Quantity)     *)
(*   Integral, Derivative              streams::math                       *)
(*   AccToState, VelToState, PosToState, F2Q, Q2F   streams::converters    *)
(*   Freeze     streams::flow::FreezeStream                                *)
(*                                                                         *)
(* Besides the machine `st' the specification carries                      *)
(*   tw   the reset twin: a copy re-initialised at every event the kind    *)
(*        treats as a reset and fed the events from the reset onward       *)
(*   sk   the skip-absent twin (kinds that ignore absent samples): a copy  *)
(*        that never sees an Absent event                                  *)
(*   run  the present samples since the last reset (history variable)      *)
(*        from which the closed-form references are computed               *)
(*   hist the behaviour so far with the predicted observations, emitted    *)
(*        as JSON for replay against the implementation                    *)
(***************************************************************************)
EXTENDS Integers, Sequences, FiniteSets, TLC, Json, Rat, Outcome, PIDMath, StreamShapes

CONSTANTS Kinds,      \* subset of AllKinds explored by this run
          MaxLen,     \* number of events per behaviour
          Emit,       \* TRUE: keep `hist' and print one JSON line per behaviour
          DimCheck,   \* is dimension checking compiled in
          Rich,       \* TRUE: larger alphabets (thorough tier)
          UnitGrid    \* TRUE: integral/derivative/to-state inputs range over the whole 7x7 unit grid

AllKinds == {"PID", "CmdPID", "CmdPIDF", "EWMA", "EWMAQ", "MA", "MAQ", "Integral", "Derivative",
             "AccToState", "VelToState", "PosToState", "F2Q", "Q2F", "Freeze"}

VARIABLES kind, par, st, tw, sk, now, run, last, lastIn, hist, n, dead, sh
vars == <<kind, par, st, tw, sk, now, run, last, lastIn, hist, n, dead, sh>>

-----------------------------------------------------------------------------
(* Units are pairs <<millimetre exponent, second exponent>>.               *)
MM   == <<1, 0>>
MMPS == <<1, -1>>
MMPS2 == <<1, -2>>
SEC  == <<0, 1>>
UMul(u, w) == <<u[1] + w[1], u[2] + w[2]>>
UDiv(u, w) == <<u[1] - w[1], u[2] - w[2]>>

-----------------------------------------------------------------------------
(* Parameters and alphabets.                                               *)
V3(a, b, c) == <<RI(a), RI(b), RI(c)>>

Params(k) ==
  CASE k = "PID" ->
         {[sp |-> RI(2), kp |-> RI(3), ki |-> RI(2), kd |-> RI(4)]} \cup
         (IF Rich THEN {[sp |-> RI(-1), kp |-> RI(-1), ki |-> Zero, kd |-> R(1, 2)],
                        [sp |-> Zero, kp |-> Zero, ki |-> RI(1), kd |-> Zero]} ELSE {})
    [] k = "CmdPID" ->
         {[cmd |-> [k |-> ck, v |-> RI(2)],
           gains |-> << [kp |-> RI(1), ki |-> RI(2), kd |-> RI(4)],
                        [kp |-> RI(2), ki |-> RI(4), kd |-> RI(1)],
                        [kp |-> RI(4), ki |-> RI(1), kd |-> RI(2)] >>] : ck \in 0..2}
    [] k = "CmdPIDF" ->
         {[cmd |-> [k |-> ck, v |-> RI(2)],
           gains |-> << [kp |-> RI(1), ki |-> RI(2), kd |-> RI(4)],
                        [kp |-> RI(2), ki |-> RI(4), kd |-> RI(1)],
                        [kp |-> RI(4), ki |-> RI(1), kd |-> RI(2)] >>] : ck \in 0..2}
    [] k \in {"EWMA", "EWMAQ"} ->
         {[s |-> x] : x \in (IF Rich THEN {Zero, R(1, 2), R(3, 4), One} ELSE {R(1, 2), R(3, 4), One})}
    [] k \in {"MA", "MAQ"} ->
         {[w |-> x] : x \in (IF Rich THEN {1, 2, 3, 8} ELSE {2, 3})}
    [] UnitGrid /\ k \in {"Integral", "Derivative", "AccToState", "VelToState", "PosToState"} ->
         {[unit |-> <<a, b>>] : a \in -3..3, b \in -3..3}
    [] k \in {"Integral", "Derivative"} ->
         {[unit |-> u] : u \in (IF Rich THEN {<<a, b>> : a \in {-3, 0, 1, 3}, b \in {-3, -1, 0, 3}}
                                        ELSE {MM, <<-2, 3>>})}
    [] k = "AccToState" -> {[unit |-> u] : u \in {MMPS2, MMPS, <<0, 0>>}}
    [] k = "VelToState" -> {[unit |-> u] : u \in {MMPS, MM, <<1, 1>>}}
    [] k = "PosToState" -> {[unit |-> u] : u \in {MM, SEC, <<-1, 0>>}}
    [] k = "F2Q" -> {[unit |-> u] : u \in {MM, <<2, -3>>}}
    [] k = "Q2F" -> {[unit |-> u] : u \in {MMPS}}
    [] k = "Freeze" -> {[x |-> 0]}

ScalarVals == IF Rich THEN {RI(-2), RI(1), RI(3), R(1, 2)} ELSE {RI(-2), RI(1), RI(3)}
TripleVals == {V3(0, 0, 0), V3(1, 2, -1), V3(3, -1, 2)}
DtSet(k)   == IF k \in {"EWMA", "EWMAQ", "MA", "MAQ"} THEN {0, 1, 2}
              ELSE IF Rich THEN {1, 2, 4} ELSE {1, 2}

SomeEv(v, dt) == [c |-> "some", v |-> v, dt |-> dt]
NoneEv        == [c |-> "none"]
ErrEv(e)      == [c |-> "err", e |-> e]
SetEv(k, v)   == [c |-> "set", k |-> k, v |-> v]

BoolOutcomes == {[c |-> "err", e |-> 1], [c |-> "none"], [c |-> "true"], [c |-> "false"]}

Alphabet(k) ==
  CASE k = "CmdPID" ->
         {SomeEv(v, dt) : v \in TripleVals, dt \in DtSet(k)} \cup {NoneEv} \cup {ErrEv(e) : e \in Errors}
         \cup {SetEv(ck, RI(2)) : ck \in 0..2} \cup {SetEv(1, RI(-1))}
    [] k = "CmdPIDF" ->
         {SomeEv(v, 1) : v \in {V3(1, 2, -1), V3(3, -1, 2)}} \cup {NoneEv, ErrEv(1)} \cup
         {[c |-> "fol", o |-> o] : o \in {[c |-> "none"], [c |-> "err", e |-> 2], [c |-> "some", k |-> 1, v |-> RI(-1)],
                                          [c |-> "some", k |-> 0, v |-> RI(2)], [c |-> "some", k |-> 2, v |-> RI(2)]}}
    [] k = "Freeze" ->
         {[c |-> "fz", cond |-> b, in |-> i] :
             b \in BoolOutcomes,
             i \in {SomeEv(v, 1) : v \in {RI(1), RI(3)}} \cup {NoneEv} \cup {ErrEv(e) : e \in Errors}}
    [] OTHER ->
         {SomeEv(v, dt) : v \in ScalarVals, dt \in DtSet(k)} \cup {NoneEv} \cup {ErrEv(e) : e \in Errors}

-----------------------------------------------------------------------------
(* Which events does a kind treat as a reset (transcribed from the per-    *)
(* stream documentation)?                                                  *)
IsReset(k, s, ev) ==
  CASE k \in {"PID", "Integral", "Derivative"} -> ev.c \in {"none", "err"}
    [] k = "CmdPID" -> ev.c \in {"none", "err"} \/ (ev.c = "set" /\ [k |-> ev.k, v |-> ev.v] # s.cmd)
    [] k = "CmdPIDF" ->         \* an update that goes through resets on absent / error input, or when the followed command differs
         /\ ev.c # "fol" /\ s.fol.c # "err"
         /\ (ev.c \in {"none", "err"} \/ (s.fol.c = "some" /\ [k |-> s.fol.k, v |-> s.fol.v] # s.cmd))
    [] k \in {"EWMA", "EWMAQ", "MA", "MAQ", "AccToState", "VelToState", "PosToState"} -> ev.c = "err"
    [] k \in {"F2Q", "Q2F"} -> TRUE          \* memoryless: every event is a fresh start
    [] k = "Freeze" -> FALSE
IgnoresAbsent(k) == k \in {"EWMA", "EWMAQ", "MA", "MAQ", "AccToState", "VelToState", "PosToState"}

-----------------------------------------------------------------------------
(* The machines.                                                           *)
InitSt(k, p) ==
  CASE k = "PID"  -> [prev |-> Nothing, integ |-> Zero, out |-> Absent]
    [] k = "CmdPID" -> [cmd |-> p.cmd, lastReq |-> Nothing, u |-> [c |-> "empty"]]
    [] k = "CmdPIDF" -> [cmd |-> p.cmd, lastReq |-> Nothing, u |-> [c |-> "empty"], fol |-> [c |-> "none"]]
    [] k \in {"EWMA", "EWMAQ"} -> [value |-> Absent, upd |-> Nothing]
    [] k \in {"MA", "MAQ"} -> [value |-> Absent, q |-> <<>>]
    [] k \in {"Integral", "Derivative"} -> [value |-> Absent, prev |-> Nothing]
    [] k \in {"AccToState", "VelToState", "PosToState"} -> [u |-> Nothing]
    [] k \in {"F2Q", "Q2F"} -> [value |-> Absent]
    [] k = "Freeze" -> [fv |-> Absent]

(* A newly constructed stream; a command PID is constructed with the      *)
(* command currently in effect.                                            *)
FreshSt(k, p, s) == IF k = "CmdPID" THEN [InitSt(k, p) EXCEPT !.cmd = s.cmd]
                    ELSE IF k = "CmdPIDF" THEN [InitSt(k, p) EXCEPT !.cmd = s.cmd, !.fol = s.fol]      \* follows the same getter
                    ELSE InitSt(k, p)

(* PIDControllerStream::update *)
PIDStep(p, s, ev, t) ==
  CASE ev.c = "none" -> [prev |-> Nothing, integ |-> Zero, out |-> Absent]
    [] ev.c = "err"  -> [prev |-> Nothing, integ |-> Zero, out |-> Err(ev.e)]
    [] ev.c = "some" ->
         LET e == RSub(p.sp, ev.v)
             first == IsNothing(s.prev)
             dt == IF first THEN 1 ELSE t - The(s.prev).t
             add == IF first THEN Zero ELSE TrapAdd(dt, The(s.prev).v, e)
             drv == IF first THEN Zero ELSE Quot(The(s.prev).v, e, dt)
             integ == RAdd(s.integ, add)
         IN  [prev |-> Just([t |-> t, v |-> e]), integ |-> integ,
              out |-> Some(t, Eval(p, e, integ, drv))]

(* CommandPID: impl_set, update, get -- see module PIDMath (shared with Wrappers.tla) *)
(* EWMAStream::update; Pow is exact on this domain: base in {0, 1/4, 1/2, 1},*)
(* exponent a whole number of seconds (the tick of an EWMA behaviour is 1 s).*)
EWMAStep(p, s, ev, t) ==
  CASE ev.c = "err"  -> [value |-> Err(ev.e), upd |-> Nothing]
    [] ev.c = "none" -> IF IsErr(s.value) THEN [value |-> Absent, upd |-> Nothing] ELSE s
    [] ev.c = "some" ->
         LET fresh == ~IsSome(s.value)
             pv == IF fresh THEN ev.v ELSE s.value.v
             pt == IF fresh THEN t ELSE The(s.upd)
             lam == RSub(One, RPow(RSub(One, p.s), t - pt))
         IN  [value |-> Some(t, RAdd(RMul(pv, RSub(One, lam)), RMul(ev.v, lam))), upd |-> Just(t)]

(* MovingAverageStream::update *)
RECURSIVE Trim(_, _)
Trim(q, lim) == IF Len(q) > 0 /\ q[1].t <= lim THEN Trim(Tail(q), lim) ELSE q
Weight(q, i, t, w) == q[i].t - (IF i = 1 THEN t - w ELSE q[i - 1].t)
RECURSIVE WSum(_, _, _, _)
WSum(q, i, t, w) == IF i = 0 THEN Zero ELSE RAdd(WSum(q, i - 1, t, w), RMul(q[i].v, RI(Weight(q, i, t, w))))
MAStep(p, s, ev, t) ==
  CASE ev.c = "err"  -> [value |-> Err(ev.e), q |-> <<>>]
    [] ev.c = "none" -> IF IsErr(s.value) THEN [s EXCEPT !.value = Absent] ELSE s
    [] ev.c = "some" ->
         LET q == Trim(Append(s.q, [t |-> t, v |-> ev.v]), t - p.w)
         IN  [value |-> Some(t, RDiv(WSum(q, Len(q), t, p.w), RI(p.w))), q |-> q]

(* IntegralStream / DerivativeStream::update *)
IDStep(k, s, ev, t) ==
  CASE ev.c = "err"  -> [value |-> Err(ev.e), prev |-> Nothing]
    [] ev.c = "none" -> [value |-> Absent, prev |-> Nothing]
    [] ev.c = "some" ->
         IF IsNothing(s.prev)
         THEN [value |-> Absent, prev |-> Just([t |-> t, v |-> ev.v])]
         ELSE LET pr == The(s.prev)
                  dt == t - pr.t
              IN  IF k = "Integral"
                  THEN LET add == TrapAdd(dt, pr.v, ev.v)
                       IN  [value |-> Some(t, IF IsSome(s.value) THEN RAdd(add, s.value.v) ELSE add),
                            prev |-> Just([t |-> t, v |-> ev.v])]
                  ELSE [value |-> Some(t, Quot(pr.v, ev.v, dt)), prev |-> Just([t |-> t, v |-> ev.v])]

(* The three to-state converters.  u: Nothing | Just([t, x, l1]) where x   *)
(* is the last input and l1 the derived quantities.                        *)
ToStateStep(k, s, ev, t) ==
  CASE ev.c = "err"  -> [u |-> Nothing]
    [] ev.c = "none" -> s
    [] ev.c = "some" ->
         IF IsNothing(s.u) THEN [u |-> Just([t |-> t, x |-> ev.v, l1 |-> Nothing])]
         ELSE
           LET o == The(s.u)
               dt == t - o.t
           IN CASE k = "AccToState" ->
                    LET vadd == TrapAdd(dt, o.x, ev.v)
                    IN  IF IsNothing(o.l1)
                        THEN [u |-> Just([t |-> t, x |-> ev.v, l1 |-> Just([vel |-> vadd, pos |-> Nothing])])]
                        ELSE LET ov == The(o.l1).vel
                                 nv == RAdd(ov, vadd)
                                 padd == TrapAdd(dt, ov, nv)
                                 np == IF IsNothing(The(o.l1).pos) THEN padd ELSE RAdd(The(The(o.l1).pos), padd)
                             IN  [u |-> Just([t |-> t, x |-> ev.v, l1 |-> Just([vel |-> nv, pos |-> Just(np)])])]
                [] k = "VelToState" ->
                    LET acc == Quot(o.x, ev.v, dt)
                        padd == TrapAdd(dt, o.x, ev.v)
                        np == IF IsNothing(o.l1) THEN padd ELSE RAdd(The(o.l1).pos, padd)
                    IN  [u |-> Just([t |-> t, x |-> ev.v, l1 |-> Just([acc |-> acc, pos |-> np])])]
                [] k = "PosToState" ->
                    LET nv == Quot(o.x, ev.v, dt)
                    IN  IF IsNothing(o.l1)
                        THEN [u |-> Just([t |-> t, x |-> ev.v, l1 |-> Just([vel |-> nv, acc |-> Nothing])])]
                        ELSE [u |-> Just([t |-> t, x |-> ev.v,
                                   l1 |-> Just([vel |-> nv, acc |-> Just(Quot(The(o.l1).vel, nv, dt))])])]
ToStateObs(k, s) ==
  IF IsNothing(s.u) \/ IsNothing(The(s.u).l1) THEN Absent
  ELSE LET o == The(s.u)
           l == The(o.l1)
       IN CASE k = "AccToState" -> IF IsNothing(l.pos) THEN Absent ELSE Some(o.t, <<The(l.pos), l.vel, o.x>>)
            [] k = "VelToState" -> Some(o.t, <<l.pos, o.x, l.acc>>)
            [] k = "PosToState" -> IF IsNothing(l.acc) THEN Absent ELSE Some(o.t, <<o.x, l.vel, The(l.acc)>>)

InOutcome(ev, t) == CASE ev.c = "some" -> Some(t, ev.v) [] ev.c = "none" -> Absent [] ev.c = "err" -> Err(ev.e)

(* FreezeStream::update *)
FreezeStep(s, ev, t) ==
  CASE ev.cond.c = "err"   -> [fv |-> Err(ev.cond.e)]
    [] ev.cond.c = "none"  -> [fv |-> Absent]
    [] ev.cond.c = "true"  -> s
    [] ev.cond.c = "false" -> [fv |-> InOutcome(ev.in, t)]

(* CommandPID::update while following: update_following_data first *)
CmdFolStep(p, s, ev, t) ==
  IF ev.c = "fol" THEN [s EXCEPT !.fol = ev.o]                              \* the followed getter's output changes; nothing else happens
  ELSE IF s.fol.c = "err" THEN s                                            \* the getter's error aborts the update before the input is read
  ELSE LET s1 == IF s.fol.c = "some" THEN CmdStep(p, s, [c |-> "set", k |-> s.fol.k, v |-> s.fol.v], t) ELSE s
       IN  CmdStep(p, s1, ev, t)

StepSt(k, p, s, ev, t) ==
  CASE k = "PID" -> PIDStep(p, s, ev, t)
    [] k = "CmdPID" -> CmdStep(p, s, ev, t)
    [] k = "CmdPIDF" -> CmdFolStep(p, s, ev, t)
    [] k \in {"EWMA", "EWMAQ"} -> EWMAStep(p, s, ev, t)
    [] k \in {"MA", "MAQ"} -> MAStep(p, s, ev, t)
    [] k \in {"Integral", "Derivative"} -> IDStep(k, s, ev, t)
    [] k \in {"AccToState", "VelToState", "PosToState"} -> ToStateStep(k, s, ev, t)
    [] k \in {"F2Q", "Q2F"} -> [value |-> InOutcome(ev, t)]
    [] k = "Freeze" -> FreezeStep(s, ev, t)

(* What get() returns. *)
Obs(k, s) ==
  CASE k = "PID" -> s.out
    [] k \in {"CmdPID", "CmdPIDF"} -> CmdObs(s)
    [] k \in {"EWMA", "EWMAQ", "MA", "MAQ", "Integral", "Derivative", "F2Q", "Q2F"} -> s.value
    [] k \in {"AccToState", "VelToState", "PosToState"} -> ToStateObs(k, s)
    [] k = "Freeze" -> s.fv

(* What update() (or set()) returns. *)
Ret(k, ev) ==
  CASE k \in {"F2Q", "Q2F"} -> RetOk
    [] k = "Freeze" ->
         IF ev.cond.c = "err" THEN RetErr(ev.cond.e)
         ELSE IF ev.cond.c = "false" /\ ev.in.c = "err" THEN RetErr(ev.in.e) ELSE RetOk
    [] OTHER -> IF ev.c = "err" THEN RetErr(ev.e) ELSE RetOk

(* Unit of a present output (Quantity-valued kinds), from the input unit.  *)
OutUnit(k, p) ==
  CASE k = "Integral" -> Just(UMul(p.unit, SEC))
    [] k = "Derivative" -> Just(UDiv(p.unit, SEC))
    [] k = "F2Q" -> Just(p.unit)
    [] OTHER -> Nothing

ExpectedUnit(k) == CASE k = "AccToState" -> MMPS2 [] k = "VelToState" -> MMPS [] k = "PosToState" -> MM
(* The to-state converters assert the unit of every present sample. *)
Panics(k, p, ev) ==
  /\ k \in {"AccToState", "VelToState", "PosToState"}
  /\ ev.c = "some"
  /\ DimCheck
  /\ p.unit # ExpectedUnit(k)

HasTime(k, ev) == IF k = "Freeze" THEN ev.in.c = "some" ELSE ev.c = "some"      \* (a sample whose update is aborted still advances the clock)
EvDt(k, ev) == IF k = "Freeze" THEN ev.in.dt ELSE ev.dt

-----------------------------------------------------------------------------
Init ==
  /\ kind \in Kinds
  /\ par \in Params(kind)
  /\ st = InitSt(kind, par)
  /\ tw = st
  /\ sk = st
  /\ now = 0
  /\ run = <<>>
  /\ last = NoneEv
  /\ lastIn = NoneEv
  /\ hist = <<>>
  /\ n = 0
  /\ dead = FALSE
  /\ sh = InitShape(kind, IF kind = "CmdPID" THEN par.cmd.k ELSE 0)

RunNext(k, s, ev, t) ==
  IF k = "CmdPIDF" /\ (ev.c = "fol" \/ s.fol.c = "err") THEN run                \* nothing was read
  ELSE IF IsReset(k, s, ev) /\ ev.c = "some" THEN <<[t |-> t, v |-> ev.v]>>     \* reset by the followed command, then this sample
  ELSE IF IsReset(k, s, ev) THEN <<>>
  ELSE IF ev.c = "some" THEN Append(run, [t |-> t, v |-> ev.v])
  ELSE run

(* the event as the value-free abstraction StreamShapes sees it *)
EvShape(k, s, ev) ==
  IF k = "Freeze"
  THEN [c |-> ev.in.c, e |-> IF ev.in.c = "err" THEN ev.in.e ELSE 0, cond |-> ev.cond.c, ce |-> IF ev.cond.c = "err" THEN ev.cond.e ELSE 0]
  ELSE IF ev.c = "set" THEN [c |-> "set", e |-> 0, diff |-> [k |-> ev.k, v |-> ev.v] # s.cmd, k |-> ev.k]
  ELSE [c |-> ev.c, e |-> IF ev.c = "err" THEN ev.e ELSE 0]

Update(ev) ==
  LET t == IF HasTime(kind, ev) THEN now + EvDt(kind, ev) ELSE now
      reset == IsReset(kind, st, ev)
  IN
  /\ ~dead
  /\ n < MaxLen
  /\ n' = n + 1
  /\ now' = t
  /\ last' = ev
  /\ lastIn' = IF ev.c \in {"set", "fol"} \/ (kind = "CmdPIDF" /\ st.fol.c = "err") THEN lastIn ELSE ev   \* the input was not read
  /\ UNCHANGED <<kind, par>>
  /\ IF Panics(kind, par, ev)
     THEN /\ dead' = TRUE
          /\ UNCHANGED <<st, tw, sk, run, sh>>
          /\ hist' = IF Emit THEN Append(hist, [in |-> ev, t |-> t, ret |-> Panic]) ELSE hist
     ELSE /\ dead' = FALSE
          /\ st' = StepSt(kind, par, st, ev, t)
          /\ tw' = StepSt(kind, par, IF reset THEN FreshSt(kind, par, st) ELSE tw, ev, t)
          /\ sk' = IF IgnoresAbsent(kind) /\ ev.c = "none" THEN sk ELSE StepSt(kind, par, sk, ev, t)
          /\ run' = RunNext(kind, st, ev, t)
          /\ sh' = IF kind = "CmdPIDF" THEN sh ELSE ShapeStep(kind, sh, EvShape(kind, st, ev))   \* the value-free abstraction does not cover following
          /\ hist' = IF Emit
                     THEN Append(hist, [in |-> ev, t |-> t, reset |-> reset,
                                        ret |-> IF kind = "CmdPIDF" /\ ev.c # "fol" /\ st.fol.c = "err" THEN RetErr(st.fol.e) ELSE Ret(kind, ev),
                                        out |-> Obs(kind, st')])
                     ELSE hist

(* get() is a separate action whose only effect is an observation. *)
Get == UNCHANGED vars

Next == (\E ev \in Alphabet(kind) : Update(ev)) \/ Get
Spec == Init /\ [][Next]_vars
(* Without the stuttering Get action: used by -simulate so that random walks are made of updates only. *)
NextU == \E ev \in Alphabet(kind) : Update(ev)
SpecU == Init /\ [][NextU]_vars

-----------------------------------------------------------------------------
(* Properties.                                                             *)

(* C05: get() returns an error only if the input returned that same error  *)
(* at the most recent update; freeze has its own law.                      *)
NoStaleError ==
  kind # "Freeze" =>
     (IsErr(Obs(kind, st)) => (lastIn.c = "err" /\ lastIn.e = Obs(kind, st).e))
FreezeLaw ==
  (kind = "Freeze" /\ n > 0) =>
     /\ last.cond.c = "none" => IsAbsent(Obs(kind, st))
     /\ last.cond.c = "false" => Obs(kind, st) = InOutcome(last.in, now)
     /\ last.cond.c = "err" => Obs(kind, st) = Err(last.cond.e)

(* C05: after a reset event every later output equals that of a new stream *)
(* fed the events from the reset onward.                                   *)
ResetTwin == ~dead => Obs(kind, tw) = Obs(kind, st)

(* C05: for kinds that ignore absent samples, deleting them changes        *)
(* nothing (compared after every event that is not itself absent).         *)
SkipAbsentTwin == (~dead /\ IgnoresAbsent(kind) /\ last.c # "none") => Obs(kind, sk) = Obs(kind, st)

(* Output is present only with the time of the newest sample. *)
OutTime == IsSome(Obs(kind, st)) => Obs(kind, st).t <= now

(* Closed-form references over the run of present samples since the last   *)
(* reset (C04, C10, C11, C12).                                             *)
RECURSIVE TrapSum(_, _)
TrapSum(r, i) == IF i <= 1 THEN Zero
                 ELSE RAdd(TrapSum(r, i - 1), TrapAdd(r[i].t - r[i - 1].t, r[i - 1].v, r[i].v))
BackDiff(r, i) == Quot(r[i - 1].v, r[i].v, r[i].t - r[i - 1].t)
Map(r, F(_)) == [i \in 1..Len(r) |-> [t |-> r[i].t, v |-> F(i)]]

PIDRef ==
  (kind = "PID" /\ last.c = "some") =>
     LET er == Map(run, LAMBDA i : RSub(par.sp, run[i].v))
         m == Len(er)
         d == IF m >= 2 THEN BackDiff(er, m) ELSE Zero
     IN  Obs(kind, st) = Some(now, Eval(par, er[m].v, TrapSum(er, m), d))
PIDAbsent ==
  (kind = "PID" /\ n > 0) => (IsSome(Obs(kind, st)) <=> last.c = "some")

IntegralRef ==
  (kind = "Integral" /\ last.c = "some") =>
     Obs(kind, st) = IF Len(run) >= 2 THEN Some(now, TrapSum(run, Len(run))) ELSE Absent
DerivativeRef ==
  (kind = "Derivative" /\ last.c = "some") =>
     Obs(kind, st) = IF Len(run) >= 2 THEN Some(now, BackDiff(run, Len(run))) ELSE Absent

(* to-state converters: `run' restarts only at errors; absent samples are ignored *)
LastSampleTime == IF Len(run) = 0 THEN 0 ELSE run[Len(run)].t
ToStateRef ==
  (kind \in {"AccToState", "VelToState", "PosToState"} /\ ~dead) =>
     LET m == Len(run)
         velFromAcc == Map(run, LAMBDA i : TrapSum(run, i))         \* valid from index 2
         velFromPos == Map(run, LAMBDA i : IF i >= 2 THEN BackDiff(run, i) ELSE Zero)
     IN CASE kind = "VelToState" ->
               Obs(kind, st) = IF m >= 2 THEN Some(LastSampleTime, <<TrapSum(run, m), run[m].v, BackDiff(run, m)>>)
                               ELSE Absent
          [] kind = "AccToState" ->
               Obs(kind, st) = IF m >= 3
                               THEN Some(LastSampleTime,
                                         <<TrapSum(SubSeq(velFromAcc, 2, m), m - 1), velFromAcc[m].v, run[m].v>>)
                               ELSE Absent
          [] kind = "PosToState" ->
               Obs(kind, st) = IF m >= 3
                               THEN Some(LastSampleTime,
                                         <<run[m].v, velFromPos[m].v, BackDiff(SubSeq(velFromPos, 2, m), m - 1)>>)
                               ELSE Absent

(* C11: PID law on the run, its trapezoid integral, and the integral of that. *)
CmdRef ==
  (kind \in {"CmdPID", "CmdPIDF"} /\ last.c = "some" /\ (kind = "CmdPIDF" => st.fol.c # "err")) =>
     LET k == st.cmd.k
         g == par.gains[k + 1]
         er == Map(run, LAMBDA i : RSub(st.cmd.v, Comp(run[i].v, k)))
         outs == Map(run, LAMBDA i : Eval(g, er[i].v, TrapSum(er, i), IF i >= 2 THEN BackDiff(er, i) ELSE Zero))
         ints == Map(run, LAMBDA i : TrapSum(outs, i))
         m == Len(run)
     IN  Obs(kind, st) =
           CASE k = 0 -> Some(now, outs[m].v)
             [] k = 1 -> IF m >= 2 THEN Some(now, ints[m].v) ELSE Absent
             [] k = 2 -> IF m >= 3 THEN Some(now, TrapSum(SubSeq(ints, 2, m), m - 1)) ELSE Absent
CmdSetSame ==
  (kind = "CmdPID" /\ last.c = "set") => (st.lastReq = Just([k |-> last.k, v |-> last.v]))

(* C12: moving average = time-weighted convex average of the retained samples. *)
RECURSIVE MinV(_, _)
MinV(q, i) == IF i = 1 THEN q[1].v ELSE RMin(MinV(q, i - 1), q[i].v)
RECURSIVE MaxV(_, _)
MaxV(q, i) == IF i = 1 THEN q[1].v ELSE RMax(MaxV(q, i - 1), q[i].v)
RECURSIVE SumW(_, _, _, _)
SumW(q, i, t, w) == IF i = 0 THEN 0 ELSE SumW(q, i - 1, t, w) + Weight(q, i, t, w)
MALaw ==
  (kind \in {"MA", "MAQ"} /\ last.c = "some") =>
     LET q == st.q
         m == Len(q)
     IN  /\ m >= 1                                             \* never empty after a sample: no index panic
         /\ \A i \in 1..m : q[i].t > now - par.w                \* only samples inside the window are kept
         /\ \A i \in 1..m : Weight(q, i, now, par.w) >= 0
         /\ SumW(q, m, now, par.w) = par.w                     \* weights sum to the window length
         /\ IsSome(Obs(kind, st))
         /\ RLe(MinV(q, m), Obs(kind, st).v) /\ RLe(Obs(kind, st).v, MaxV(q, m))
         /\ (Len(run) = 1 => Obs(kind, st).v = run[1].v)       \* first sample unchanged
         /\ q = Trim(run, now - par.w)                         \* retained = samples newer than now - w
EWMALaw ==
  (kind \in {"EWMA", "EWMAQ"} /\ last.c = "some") =>
     /\ IsSome(Obs(kind, st))
     /\ (Len(run) = 1 => Obs(kind, st).v = run[1].v)
     /\ RLe(MinV(run, Len(run)), Obs(kind, st).v) /\ RLe(Obs(kind, st).v, MaxV(run, Len(run)))
     /\ ((\A i \in 1..Len(run) : run[i].v = run[1].v) => Obs(kind, st).v = run[1].v)

(* C12: the f32 and the Quantity variant are the same machine (they share  *)
(* one definition here; the replay drives both real variants with it).     *)

(* The value-free abstraction of StreamShapes commutes with the machines: it predicts the category of *)
(* the output, the cached error identity, the number of samples since the last reset and what update() returns. *)
ShapeCommutes ==
  (~dead /\ kind # "CmdPIDF") =>
     /\ sh.cat = Obs(kind, st).c
     /\ (sh.cat = "err" => sh.e = Obs(kind, st).e)
     /\ (kind \notin {"F2Q", "Q2F", "Freeze"} => sh.cnt = Cap3(Len(run)))
     /\ (kind = "CmdPID" => sh.k = st.cmd.k)
     /\ (n > 0 /\ last.c # "set" => ShapeRet(kind, EvShape(kind, st, last)) = Ret(kind, last))
     /\ \A ev \in Alphabet(kind) : ShapeIsReset(kind, EvShape(kind, st, ev)) = IsReset(kind, st, ev)
     /\ ShapeIgnoresAbsent(kind) = IgnoresAbsent(kind)

AllLaws == /\ ShapeCommutes /\ NoStaleError /\ FreezeLaw /\ ResetTwin /\ SkipAbsentTwin /\ OutTime
           /\ PIDRef /\ PIDAbsent /\ IntegralRef /\ DerivativeRef /\ ToStateRef
           /\ CmdRef /\ CmdSetSame /\ MALaw /\ EWMALaw

(* Emission of behaviours for replay (one JSON line per maximal behaviour). *)
EmitInv ==
  (Emit /\ (n = MaxLen \/ dead)) =>
     PrintT(<<"B", ToJson([kind |-> kind, par |-> par, dimcheck |-> DimCheck, steps |-> hist])>>)

(* Keep rationals small enough for 32-bit TLC arithmetic and for exact f32. *)
RECURSIVE AllSmall(_)
AllSmall(v) == IF Len(v) = 2 /\ v[1] \in Int THEN Small(v) ELSE \A i \in 1..Len(v) : Small(v[i])
Bound == IsSome(Obs(kind, st)) => AllSmall(Obs(kind, st).v)
=============================================================================
