---------------------------- MODULE StreamShapes ----------------------------
(***************************************************************************)
(* The value-free abstraction of the stateful stream machines of           *)
(* Streams.tla: only what determines the CATEGORY of the output (error     *)
(* with its identity / absent / present), i.e. how many present samples    *)
(* the stream has seen since its last reset and which error it caches.     *)
(*                                                                         *)
(* Streams.tla checks that this abstraction commutes with its machines     *)
(* (ShapeCommutes), so it is a refinement mapping; StreamsTrace.tla uses   *)
(* it to validate traces recorded from the real streams on arbitrary       *)
(* floats, where TLC cannot recompute the numbers.                         *)
(*                                                                         *)
(* A shape is [cat, e, cnt, k]:  cat in {"none", "some", "err"} is the     *)
(* category get() shows, e the cached error identity, cnt the number of    *)
(* present samples since the last reset (capped at 3), k the command kind  *)
(* (command PID only).  An event is [c, e] with c in {"some", "none",      *)
(* "err", "set"}; for "set": diff says whether the command differs and k   *)
(* is its kind; for freeze: cond in {"err","none","true","false"}, ce.     *)
(***************************************************************************)
EXTENDS Integers

Cap3(x) == IF x > 3 THEN 3 ELSE x
Shape(cat, e, cnt, k) == [cat |-> cat, e |-> e, cnt |-> cnt, k |-> k]
InitShape(kind, k) == Shape("none", 0, 0, k)

(* how many present samples are needed before the output is present *)
Needed(kind, k) ==
  CASE kind \in {"PID", "EWMA", "EWMAQ", "MA", "MAQ", "F2Q", "Q2F"} -> 1
    [] kind \in {"Integral", "Derivative", "VelToState"} -> 2
    [] kind \in {"AccToState", "PosToState"} -> 3
    [] kind = "CmdPID" -> k + 1
    [] kind = "Freeze" -> 1
CatOf(kind, cnt, k) == IF cnt >= Needed(kind, k) THEN "some" ELSE "none"

ShapeStep(kind, s, ev) ==
  CASE kind \in {"PID", "Integral", "Derivative"} ->
         (CASE ev.c = "some" -> Shape(CatOf(kind, Cap3(s.cnt + 1), s.k), 0, Cap3(s.cnt + 1), s.k)
           [] ev.c = "none" -> Shape("none", 0, 0, s.k)
           [] ev.c = "err"  -> Shape("err", ev.e, 0, s.k))
    [] kind = "CmdPID" ->
         (CASE ev.c = "some" -> Shape(CatOf(kind, Cap3(s.cnt + 1), s.k), 0, Cap3(s.cnt + 1), s.k)
           [] ev.c = "none" -> Shape("none", 0, 0, s.k)
           [] ev.c = "err"  -> Shape("err", ev.e, 0, s.k)
           [] ev.c = "set"  -> IF ev.diff THEN Shape("none", 0, 0, ev.k) ELSE s)
    [] kind \in {"EWMA", "EWMAQ", "MA", "MAQ"} ->
         (CASE ev.c = "some" -> Shape("some", 0, Cap3(s.cnt + 1), s.k)
           [] ev.c = "none" -> IF s.cat = "err" THEN Shape("none", 0, 0, s.k) ELSE s      \* ignored, but clears a cached error
           [] ev.c = "err"  -> Shape("err", ev.e, 0, s.k))
    [] kind \in {"AccToState", "VelToState", "PosToState"} ->                            \* never report an error themselves
         (CASE ev.c = "some" -> Shape(CatOf(kind, Cap3(s.cnt + 1), s.k), 0, Cap3(s.cnt + 1), s.k)
           [] ev.c = "none" -> s
           [] ev.c = "err"  -> Shape("none", 0, 0, s.k))
    [] kind \in {"F2Q", "Q2F"} ->
         (CASE ev.c = "some" -> Shape("some", 0, 1, s.k)
           [] ev.c = "none" -> Shape("none", 0, 0, s.k)
           [] ev.c = "err"  -> Shape("err", ev.e, 0, s.k))
    [] kind = "Freeze" ->
         (CASE ev.cond = "err"   -> Shape("err", ev.ce, 0, s.k)
           [] ev.cond = "none"  -> Shape("none", 0, 0, s.k)
           [] ev.cond = "true"  -> s
           [] ev.cond = "false" -> CASE ev.c = "some" -> Shape("some", 0, 1, s.k)
                                     [] ev.c = "none" -> Shape("none", 0, 0, s.k)
                                     [] ev.c = "err"  -> Shape("err", ev.e, 0, s.k))

(* what update() / set() returns *)
ShapeRet(kind, ev) ==
  CASE kind \in {"F2Q", "Q2F"} -> [c |-> "ok"]
    [] kind = "Freeze" -> IF ev.cond = "err" THEN [c |-> "err", e |-> ev.ce]
                          ELSE IF ev.cond = "false" /\ ev.c = "err" THEN [c |-> "err", e |-> ev.e] ELSE [c |-> "ok"]
    [] OTHER -> IF ev.c = "err" THEN [c |-> "err", e |-> ev.e] ELSE [c |-> "ok"]

(* reset classes (same table as Streams.tla IsReset, in terms of the event category) *)
ShapeIsReset(kind, ev) ==
  CASE kind \in {"PID", "Integral", "Derivative"} -> ev.c \in {"none", "err"}
    [] kind = "CmdPID" -> ev.c \in {"none", "err"} \/ (ev.c = "set" /\ ev.diff)
    [] kind \in {"EWMA", "EWMAQ", "MA", "MAQ", "AccToState", "VelToState", "PosToState"} -> ev.c = "err"
    [] kind \in {"F2Q", "Q2F"} -> TRUE
    [] kind = "Freeze" -> FALSE
ShapeIgnoresAbsent(kind) == kind \in {"EWMA", "EWMAQ", "MA", "MAQ", "AccToState", "VelToState", "PosToState"}
=============================================================================
