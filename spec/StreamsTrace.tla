---------------------------- MODULE StreamsTrace ----------------------------
(***************************************************************************)
(* Trace validation of the stateful streams on ARBITRARY floats and        *)
(* irregular timestamps (C04, C05, C10, C11, C12).                         *)
(*                                                                         *)
(* The recorder (harness `streams record') drives each real stream with a  *)
(* random history of up to 64 events (present samples with random finite   *)
(* values and intervals from microseconds to hours, absent, two error      *)
(* identities; set(command) for the command PID; a condition for freeze)   *)
(* and logs one line per public call at its return.  Next to the stream it *)
(* drives real twin objects and logs their outputs:                        *)
(*   since_none / since_err / since_set   fresh streams restarted at the   *)
(*        last absent / error / different-set event (the specification     *)
(*        decides which of them the kind's reset class designates)         *)
(*   skip     the same history without the absent events                   *)
(*   shift    all timestamps shifted by a constant                         *)
(*   scale    all values (setpoint, command) scaled by a power of two      *)
(*   variant  the Quantity variant of a filter                             *)
(*   composite  (PID) the controller assembled from the crate's            *)
(*            difference, integral, derivative, product and sum streams    *)
(*   get2     a second call of get()                                       *)
(* Values are logged as ordered integer keys of their f32 bits (adjacent   *)
(* floats differ by 1), times in per-history ticks.                        *)
(*                                                                         *)
(* TLC replays the log against the value-free machine of StreamShapes      *)
(* (which Streams.tla proves to be a refinement mapping of its machines):  *)
(* category, error identity, return value and timestamp of every output    *)
(* must be the machine's; each value must lie within n/3 + 3 f32 epsilons *)
(* (n = samples since the last reset) of the textbook formula evaluated in *)
(* f64 by the recorder over exactly those samples (PID, command PID with   *)
(* twice the allowance, integral, derivative, both filters, the three      *)
(* to-state converters; field `num');                                      *)
(* the twin selected by the reset class, and the                            *)
(* skip / shift / scale / variant twins, must show the same keys; the      *)
(* filters must stay between the smallest and largest contributing sample. *)
(***************************************************************************)
EXTENDS Integers, Sequences, TLC, Json, IOUtils, StreamShapes

(* TRUE: only what C05 talks about (return value, category, error identity, timestamp, purity, reset twin, skip twin); the shift / scale /  *)
(* variant / composite twins, the filter bounds and the f64 reference belong to C04, C10, C11 and C12 and are checked when FALSE.             *)
CONSTANT StructureOnly,
         CheckErrId       \* FALSE for the numeric properties (C04, C10, C12): WHICH error is shown is the clause of C05 (and C11)

Rec == ndJsonDeserialize(IOEnv.TRACE)

VARIABLES l, kind, sh, cmd, idx, lastNone, lastErr, lastSet, lastT, fzT, win, q, mm
vars == <<l, kind, sh, cmd, idx, lastNone, lastErr, lastSet, lastT, fzT, win, q, mm>>

MaxI2(a, b) == IF a >= b THEN a ELSE b
MinI2(a, b) == IF a <= b THEN a ELSE b
IsEvent(k) == l <= Len(Rec) /\ Rec[l].k = k /\ l' = l + 1
Slack == 64        \* keys; sample values of a filter history lie within two binades, so a few ulps per accumulated term

Reset ==
  /\ IsEvent("reset")
  /\ kind' = Rec[l].kind
  /\ sh' = InitShape(Rec[l].kind, Rec[l].cmdk)
  /\ cmd' = [k |-> Rec[l].cmdk, key |-> Rec[l].cmdkey]
  /\ idx' = 0 /\ lastNone' = 0 /\ lastErr' = 0 /\ lastSet' = 0
  /\ lastT' = 0 /\ fzT' = 0
  /\ win' = Rec[l].w
  /\ q' = <<>> /\ mm' = <<>>

(* the recorded event as StreamShapes sees it; for set(command) "different" is recomputed from kind and value key *)
EvOf(r) ==
  IF kind = "Freeze" THEN [c |-> r.ev.c, e |-> r.ev.e, cond |-> r.ev.cond, ce |-> r.ev.ce]
  ELSE IF r.ev.c = "set" THEN [c |-> "set", e |-> 0, diff |-> (r.ev.k # cmd.k \/ r.ev.key # cmd.key), k |-> r.ev.k]
  ELSE [c |-> r.ev.c, e |-> r.ev.e]

RECURSIVE TrimQ(_, _)
TrimQ(s, lim) == IF Len(s) > 0 /\ s[1].t <= lim THEN TrimQ(Tail(s), lim) ELSE s
RECURSIVE QMin(_, _)
QMin(s, i) == IF i = 1 THEN s[1].key ELSE MinI2(QMin(s, i - 1), s[i].key)
RECURSIVE QMax(_, _)
QMax(s, i) == IF i = 1 THEN s[1].key ELSE MaxI2(QMax(s, i - 1), s[i].key)

SameOut(a, b) == IF CheckErrId THEN a = b ELSE [a EXCEPT !.e = 0] = [b EXCEPT !.e = 0]      \* record equality: category, (error identity,) time and keys

Event ==
  /\ IsEvent("ev")
  /\ LET r == Rec[l]
         ev == EvOf(r)
         sh2 == ShapeStep(kind, sh, ev)
         isSet == r.ev.c = "set"
         i2 == idx + 1
         resetNow == ShapeIsReset(kind, ev)
         (* bookkeeping of where the candidate twins were restarted (the recorder restarts them the same way) *)
         n2 == IF r.ev.c = "none" THEN i2 ELSE lastNone
         e2 == IF r.ev.c = "err" THEN i2 ELSE lastErr
         s2 == IF isSet /\ ev.diff THEN i2 ELSE lastSet
         newT == IF r.ev.c = "some" THEN r.ev.t ELSE lastT
         newFz == IF kind = "Freeze" /\ ev.cond = "false" /\ r.ev.c = "some" THEN r.ev.t ELSE fzT
         (* moving-average window / EWMA run, as the specification maintains them *)
         q2 == IF kind \in {"MA", "MAQ"}
               THEN (IF r.ev.c = "some" THEN TrimQ(Append(q, [t |-> r.ev.t, key |-> r.inkey]), r.ev.t - win)
                     ELSE IF r.ev.c = "err" THEN <<>> ELSE q)
               ELSE q
         mm2 == IF kind \in {"EWMA", "EWMAQ"}
                THEN (IF r.ev.c = "some" THEN (IF mm = <<>> THEN <<r.inkey, r.inkey>> ELSE <<MinI2(mm[1], r.inkey), MaxI2(mm[2], r.inkey)>>)
                      ELSE IF r.ev.c = "err" THEN <<>> ELSE mm)
                ELSE mm
         (* which fresh twin the kind's reset class designates: the one restarted last among the classes that are resets *)
         cands == (IF ShapeIsReset(kind, [c |-> "none", e |-> 0]) THEN {<<n2, "since_none">>} ELSE {}) \cup
                  (IF ShapeIsReset(kind, [c |-> "err", e |-> 1]) THEN {<<e2, "since_err">>} ELSE {}) \cup
                  (IF kind = "CmdPID" THEN {<<s2, "since_set">>} ELSE {})
         best == IF cands = {} THEN <<0, "">> ELSE CHOOSE c \in cands : \A d \in cands : d[1] <= c[1]
     IN
     /\ r.ret = ShapeRet(kind, ev)                                                               \* what update() / set() returned
     /\ r.out.c = sh2.cat                                                                        \* category of get()
     /\ ((CheckErrId /\ sh2.cat = "err") => r.out.e = sh2.e)                                                     \* the same error, not a stale one
     /\ (sh2.cat = "some" => r.out.t = (IF kind = "Freeze" THEN newFz ELSE newT))                \* stamped with the newest sample's time
     /\ SameOut(r.get2, r.out)                                                                   \* get() is pure
     /\ (StructureOnly \/ \A j \in 1..Len(r.num) : r.num[j].err <= r.num[j].bound)                                   \* within rounding of the recorder's f64 reference (textbook formula, exact intervals)
     /\ (best[1] > 0 /\ kind \notin {"F2Q", "Q2F", "Freeze"} =>
            SameOut(IF best[2] = "since_none" THEN r.since_none ELSE IF best[2] = "since_err" THEN r.since_err ELSE r.since_set, r.out))
     /\ ((ShapeIgnoresAbsent(kind) /\ r.ev.c # "none") => SameOut(r.skip, r.out))                \* deleting absent samples changes nothing
     /\ (StructureOnly \/ SameOut(r.shift, r.out))                                                                \* unchanged by a constant shift of timestamps (shifted back by the recorder)
     /\ (StructureOnly \/ SameOut(r.scale, r.out))                                                                \* scales exactly with a power of two (rescaled back by the recorder)
     /\ (~StructureOnly /\ kind = "PID" /\ r.ev.c = "some" =>
            /\ r.composite.c = r.out.c /\ r.composite.t = r.out.t                                    \* the controller assembled from primitive streams: same category and time,
            /\ \A j \in 1..Len(r.cnum) : r.cnum[j].err <= r.cnum[j].bound)                             \* and the same textbook value up to rounding (twice the allowance: more operations)
     /\ (~StructureOnly /\ kind \in {"MA", "EWMA"} => SameOut(r.variant, r.out))                                   \* the Quantity variant gives the same numbers
     /\ (~StructureOnly /\ kind \in {"MA", "MAQ"} /\ r.ev.c = "some" =>
            /\ Len(q2) >= 1
            /\ r.out.keys[1] >= QMin(q2, Len(q2)) - Slack /\ r.out.keys[1] <= QMax(q2, Len(q2)) + Slack
            /\ (Len(q2) = 1 => (r.out.keys[1] >= r.inkey - 2 /\ r.out.keys[1] <= r.inkey + 2)))  \* a single contributing sample is returned (2 ulp)
     /\ (~StructureOnly /\ kind \in {"EWMA", "EWMAQ"} /\ r.ev.c = "some" =>
            /\ r.out.keys[1] >= mm2[1] - 4 /\ r.out.keys[1] <= mm2[2] + 4
            /\ (sh.cat # "some" => r.out.keys[1] = r.inkey))                                      \* the first sample is returned unchanged
     /\ sh' = sh2
     /\ cmd' = IF isSet THEN [k |-> r.ev.k, key |-> r.ev.key] ELSE cmd
     /\ idx' = i2 /\ lastNone' = n2 /\ lastErr' = e2 /\ lastSet' = s2
     /\ lastT' = newT /\ fzT' = newFz
     /\ q' = q2 /\ mm' = mm2
     /\ UNCHANGED <<kind, win>>

TraceInit == /\ l = 1 /\ kind = "PID" /\ sh = InitShape("PID", 0) /\ cmd = [k |-> 0, key |-> 0] /\ idx = 0
             /\ lastNone = 0 /\ lastErr = 0 /\ lastSet = 0 /\ lastT = 0 /\ fzT = 0 /\ win = 1 /\ q = <<>> /\ mm = <<>>
TraceNext == Reset \/ Event
TraceSpec == TraceInit /\ [][TraceNext]_vars

TraceAccepted ==
  LET d == TLCGet("stats").diameter
  IN  IF d - 1 = Len(Rec) THEN TRUE
      ELSE /\ PrintT("M|first unmatched event|" \o ToString(d) \o "|" \o ToJson(Rec[d]))
           /\ FALSE
=============================================================================
