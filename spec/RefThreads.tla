---------------------------- MODULE RefThreads ----------------------------
(***************************************************************************)
(* Threads that each build their own Reference over one shared lock-       *)
(* protected counter and K times do: borrow_mut (lock), read, write        *)
(* read + 1, release.  With the lock every interleaving ends with          *)
(* value = N * K (no update is lost); with UseLock = FALSE TLC finds the   *)
(* lost update, which shows the model is not vacuous.                      *)
(***************************************************************************)
EXTENDS Integers, FiniteSets, TLC

CONSTANTS N, K, UseLock
Threads == 1..N

VARIABLES value, lock, pc, tmp, cnt
vars == <<value, lock, pc, tmp, cnt>>

Init == /\ value = 0 /\ lock = 0
        /\ pc = [t \in Threads |-> "acquire"]
        /\ tmp = [t \in Threads |-> 0]
        /\ cnt = [t \in Threads |-> 0]

Acquire(t) == /\ pc[t] = "acquire"
              /\ (UseLock => lock = 0)
              /\ lock' = IF UseLock THEN t ELSE lock
              /\ pc' = [pc EXCEPT ![t] = "read"]
              /\ UNCHANGED <<value, tmp, cnt>>
ReadV(t) == /\ pc[t] = "read"
            /\ tmp' = [tmp EXCEPT ![t] = value]
            /\ pc' = [pc EXCEPT ![t] = "write"]
            /\ UNCHANGED <<value, lock, cnt>>
WriteV(t) == /\ pc[t] = "write"
             /\ value' = tmp[t] + 1
             /\ pc' = [pc EXCEPT ![t] = "release"]
             /\ UNCHANGED <<lock, tmp, cnt>>
Release(t) == /\ pc[t] = "release"
              /\ lock' = IF UseLock THEN 0 ELSE lock
              /\ cnt' = [cnt EXCEPT ![t] = @ + 1]
              /\ pc' = [pc EXCEPT ![t] = IF cnt[t] + 1 = K THEN "done" ELSE "acquire"]
              /\ UNCHANGED <<value, tmp>>
Next == \E t \in Threads : Acquire(t) \/ ReadV(t) \/ WriteV(t) \/ Release(t)
Spec == Init /\ [][Next]_vars /\ WF_vars(Next)

InCritical(t) == pc[t] \in {"read", "write", "release"}
MutualExclusion == UseLock => \A a, b \in Threads : (InCritical(a) /\ InCritical(b)) => a = b
NoLostUpdate == (\A t \in Threads : pc[t] = "done") => value = N * K
Termination == <>(\A t \in Threads : pc[t] = "done")
=============================================================================
