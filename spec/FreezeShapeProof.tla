--------------------------- MODULE FreezeShapeProof ---------------------------
(***************************************************************************)
(* The freeze stream, for histories of ANY length (TLAPS): what get()      *)
(* shows is exactly the category (and error identity) of what the input    *)
(* returned at the last update at which the condition was false, it is     *)
(* absent whenever the condition was absent at the last update, it is the  *)
(* condition's error whenever the condition failed at the last update, and *)
(* a true condition changes nothing (C05, freeze clause).                  *)
(***************************************************************************)
EXTENDS StreamShapes, TLAPS

ErrId == {1, 2}
Events == [c : {"some", "none"}, e : {0}, cond : {"err", "none", "true", "false"}, ce : ErrId \cup {0}] \cup
          [c : {"err"}, e : ErrId, cond : {"err", "none", "true", "false"}, ce : ErrId \cup {0}]
Shapes == [cat : {"none", "some", "err"}, e : ErrId \cup {0}, cnt : 0..3, k : {0}]

LEMMA FreezeStep ==
  ASSUME NEW t \in Shapes, NEW ev \in Events
  PROVE  LET u == ShapeStep("Freeze", t, ev)
         IN  /\ u \in Shapes
             /\ (ev.cond = "true" => u = t)                                           \* frozen: nothing changes
             /\ (ev.cond = "none" => u.cat = "none")                                  \* absent condition: absent
             /\ (ev.cond = "err" => (u.cat = "err" /\ u.e = ev.ce))                   \* failing condition: its error
             /\ (ev.cond = "false" => (u.cat = ev.c /\ (ev.c = "err" => u.e = ev.e))) \* passes the input through, error identity included
  <1>1. CASE ev.cond = "err"
    BY <1>1 DEF ShapeStep, Shape, Shapes, Events, ErrId
  <1>2. CASE ev.cond = "none"
    BY <1>2 DEF ShapeStep, Shape, Shapes, Events, ErrId
  <1>3. CASE ev.cond = "true"
    BY <1>3 DEF ShapeStep, Shape, Shapes, Events, ErrId
  <1>4. CASE ev.cond = "false"
    <2>1. CASE ev.c = "some"
      BY <1>4, <2>1 DEF ShapeStep, Shape, Shapes, Events, ErrId
    <2>2. CASE ev.c = "none"
      BY <1>4, <2>2 DEF ShapeStep, Shape, Shapes, Events, ErrId
    <2>3. CASE ev.c = "err"
      BY <1>4, <2>3 DEF ShapeStep, Shape, Shapes, Events, ErrId
    <2> QED BY <2>1, <2>2, <2>3 DEF Events
  <1> QED BY <1>1, <1>2, <1>3, <1>4 DEF Events
=============================================================================
