--------------------------- MODULE ProfileNumTrace ---------------------------
(***************************************************************************)
(* Trace validation of the numeric clauses of C07 on ARBITRARY constructor *)
(* arguments (positions +-1e4, limits 1e-2..1e3, speeds within the limit). *)
(* TLC has no floats; the recorder logs ordered integer keys of f32 values *)
(* (adjacent floats differ by 1; key(-x) = -key(x)) and, for the clauses   *)
(* that need real arithmetic, an integer error and an integer bound that   *)
(* it computed in f64 from the magnitudes involved.  TLC checks:           *)
(*   * during the move the acceleration is +a, 0, -a in the pieces initial *)
(*     acceleration / constant velocity / end acceleration, a = |max_acc|  *)
(*     with the sign of the displacement;                                  *)
(*   * velocity and position at t = 0 are exactly the start values;        *)
(*   * negating all positions and velocities negates every output exactly  *)
(*     (key(negated) = -key(original)), for every non-zero displacement;   *)
(*   * a move whose displacement exceeds twice its acceleration plus       *)
(*     deceleration distance, with start and end speeds inside the limit,  *)
(*     is accepted: the recorder logs an event "refused" when the          *)
(*     constructor panics on such a request, and no action of this         *)
(*     specification consumes that event;                                  *)
(*   * the speed limit, continuity of velocity and position at the phase   *)
(*     boundaries, arrival at the end velocity and position, and position  *)
(*     = integral of velocity (between two instants of one piece the       *)
(*     position advances by the mean velocity times the interval):         *)
(*     error <= bound                                                      *)
(***************************************************************************)
EXTENDS Integers, Sequences, TLC, Json, IOUtils

Rec == ndJsonDeserialize(IOEnv.TRACE)

VARIABLES l, p
vars == <<l, p>>

IsEvent(k) == l <= Len(Rec) /\ Rec[l].k = k /\ l' = l + 1
AbsI(x) == IF x < 0 THEN -x ELSE x
MaxI3(a, b, c) == IF a >= b /\ a >= c THEN a ELSE IF b >= c THEN b ELSE c

(* a new accepted profile: direction of the displacement, keys of |max_acc|, |max_vel|, start / end velocity and start position *)
Profile == /\ IsEvent("prof")
           /\ p' = Rec[l]
(* one query instant during the move (0 <= t < t3), with the same query on the negated request *)
Query ==
  /\ IsEvent("q")
  /\ LET r == Rec[l]
     IN  /\ r.piece \in {1, 2, 3}
         /\ r.acc = (CASE r.piece = 1 -> p.dir * p.akey [] r.piece = 2 -> 0 [] r.piece = 3 -> -(p.dir * p.akey))
         /\ (r.atzero => (r.vel = p.v0key /\ r.pos = p.x0key))                               \* exactly the start state at t = 0
         /\ (p.zerodisp \/ (r.nacc = -r.acc /\ r.nvel = -r.vel /\ r.npos = -r.pos /\ r.npiece = r.piece))   \* exact negation symmetry
  /\ UNCHANGED p
(* a clause that needs real arithmetic: the recorder supplies error and bound *)
Bounded == /\ IsEvent("b")
           /\ Rec[l].err <= Rec[l].bound
           /\ UNCHANGED p

TraceInit == l = 1 /\ p = [k |-> "none"]
TraceNext == Profile \/ Query \/ Bounded
TraceSpec == TraceInit /\ [][TraceNext]_vars

TraceAccepted ==
  LET d == TLCGet("stats").diameter
  IN  IF d - 1 = Len(Rec) THEN TRUE
      ELSE /\ PrintT("M|first unmatched event|" \o ToString(d) \o "|" \o ToJson(Rec[d]))
           /\ FALSE
=============================================================================
