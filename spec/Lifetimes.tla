----------------------------- MODULE Lifetimes -----------------------------
(***************************************************************************)
(* Ownership model behind the second sentence of C16: no program written   *)
(* without `unsafe' can obtain a reference that outlives the object it     *)
(* points to.                                                              *)
(*                                                                         *)
(* A program takes a reference r from an owner object through an accessor, *)
(* and then performs statements from                                       *)
(*      use(r)        read through the reference                           *)
(*      move          move the owner into another binding                  *)
(*      drop          drop the owner explicitly                            *)
(*      endscope      leave the block in which the owner was declared      *)
(* The borrow rule a sound API must make the compiler enforce is: every    *)
(* use(r) happens while the owner is still alive where it was when r was   *)
(* taken.  TLC enumerates all programs up to MaxLen statements; a program  *)
(* that breaks the rule is labelled must_reject (if the real compiler      *)
(* accepts it, a dangling reference is obtainable in safe code), the       *)
(* others must_accept.  Each program is rendered to Rust through a fixed   *)
(* template and compiled against the real crate.                           *)
(***************************************************************************)
EXTENDS Integers, Sequences, TLC, Json

CONSTANTS Accessors,   \* accessor ids found by scanning the crate (plus sound controls)
          MaxLen, Emit

VARIABLES acc, owner, prog, dangling, n
vars == <<acc, owner, prog, dangling, n>>

Init == /\ acc \in Accessors
        /\ owner = "alive"
        /\ prog = <<>>
        /\ dangling = FALSE       \* has a use happened while the owner was gone
        /\ n = 0

Use == /\ prog' = Append(prog, "use")
       /\ dangling' = (dangling \/ owner # "alive")
       /\ UNCHANGED <<owner, acc>>
Gone(stmt, to) == /\ owner = "alive"
                  /\ owner' = to
                  /\ prog' = Append(prog, stmt)
                  /\ UNCHANGED <<dangling, acc>>
Next == /\ n < MaxLen /\ n' = n + 1
        /\ (Use \/ Gone("move", "moved") \/ Gone("drop", "dropped") \/ Gone("endscope", "ended"))
Spec == Init /\ [][Next]_vars

(* the rule itself, as a property of the model: a program is safe iff no use follows the owner's departure *)
RECURSIVE UseAfterGone(_, _, _)
UseAfterGone(p, i, gone) == IF i > Len(p) THEN FALSE
                            ELSE IF p[i] = "use" THEN (gone \/ UseAfterGone(p, i + 1, gone))
                            ELSE UseAfterGone(p, i + 1, TRUE)
LabelLaw == dangling = UseAfterGone(prog, 1, FALSE)

EmitInv == (Emit /\ n >= 1) => PrintT(<<"B", ToJson([acc |-> acc, stmts |-> prog, must_reject |-> dangling])>>)
=============================================================================
