------------------------------ MODULE Devices ------------------------------
(***************************************************************************)
(* rrtk's terminal graph: terminals (own state slot, own command slot,     *)
(* link to at most one partner), connect / disconnect, the three terminal  *)
(* reads, the update rules of the inverter, gear train, axle and           *)
(* differential, and terminals that follow getters.                        *)
(*                                                                         *)
(* A scenario (variable `scen') fixes the devices and the initial links:   *)
(*   Family "single"  one device, each of its terminals optionally joined  *)
(*                    to an external terminal                              *)
(*   Family "chain"   ext0 - D1 - D2 - ... - Dn - extn                     *)
(*   Family "match"   bare terminals, connect / disconnect only            *)
(*   Family "follow"  one device whose own terminals FOLLOW scripted       *)
(*                    getters of state data and command data: a device     *)
(*                    update first updates its terminals (each pulls its   *)
(*                    command getter, then its state getter, and stores a  *)
(*                    present datum in its own slot; an error aborts the   *)
(*                    whole update at that point and is returned), then    *)
(*                    computes as usual                                    *)
(* Timestamps are ranks (only compared by the code); states are triples of *)
(* exact rationals (position, velocity, acceleration), commands a kind     *)
(* 0..2 and a rational.                                                    *)
(***************************************************************************)
EXTENDS Integers, Sequences, FiniteSets, TLC, Json, Rat, Outcome, TerminalLinks

CONSTANTS Family,    \* "single" | "chain" | "match" | "matchdata" | "follow"
          DevTypes,  \* device types explored ("invert", "gear", "axle", "diff")
          MaxLen, Emit, Rich,
          NT,        \* number of terminals for the match families
          InitAny    \* match family: start from every matching (TRUE) or from the empty one (FALSE)

VARIABLES scen, link, ost, ocmd, now, hist, n, sweep,
          fol        \* per terminal: is it following getters, and what its state getter / command getter currently return
vars == <<scen, link, ost, ocmd, now, hist, n, sweep, fol>>

-----------------------------------------------------------------------------
Mod(a, b) == a % b
(* triples *)
T3(a, b, c) == <<a, b, c>>
TAdd(x, y) == <<RAdd(x[1], y[1]), RAdd(x[2], y[2]), RAdd(x[3], y[3])>>
TSub(x, y) == <<RSub(x[1], y[1]), RSub(x[2], y[2]), RSub(x[3], y[3])>>
TMul(x, r) == <<RMul(x[1], r), RMul(x[2], r), RMul(x[3], r)>>
TDiv(x, r) == <<RDiv(x[1], r), RDiv(x[2], r), RDiv(x[3], r)>>
TNeg(x) == <<RNeg(x[1]), RNeg(x[2]), RNeg(x[3])>>
TZero == <<Zero, Zero, Zero>>
TDot(x, y) == <<RMul(x[1], y[1]), RMul(x[2], y[2]), RMul(x[3], y[3])>>

SD(t, v) == [t |-> t, v |-> v]                 \* Datum<State>
CD(t, k, v) == [t |-> t, k |-> k, v |-> v]     \* Datum<Command>
CScale(c, r) == [c EXCEPT !.v = RMul(c.v, r)]
CDivide(c, r) == [c EXCEPT !.v = RDiv(c.v, r)]
CNeg(c) == [c EXCEPT !.v = RNeg(c.v)]

-----------------------------------------------------------------------------
(* Scenarios.  A device is [type, terms, ratio, distrust].                 *)
Dev(ty, terms, r, d) == [type |-> ty, terms |-> terms, ratio |-> r, distrust |-> d, teeth |-> <<>>]
(* a gear train built from tooth counts: ratio = first / last, sign (-1)^(gears-1) *)
TeethRatio(teeth) == RMul(R(teeth[1], teeth[Len(teeth)]), IF Mod(Len(teeth), 2) = 0 THEN RI(-1) ELSE One)
DevTeeth(teeth) == [type |-> "gear", terms |-> <<1, 2>>, ratio |-> TeethRatio(teeth), distrust |-> "none", teeth |-> teeth]
ToothLists == {<<8, 16>>, <<16, 8, 4>>, <<10, 20, 30, 5>>} \cup
              (IF Rich THEN {<<12, 7, 9, 11, 3>>, <<4, 5, 6, 7, 8, 16>>, <<9, 3>>, <<5, 9, 10>>} ELSE {})
Ratios == IF Rich THEN {RI(2), R(-1, 2), RI(3), R(-1, 4), RI(-1)} ELSE {RI(2), R(-1, 2), RI(3)}
Modes  == {"side1", "side2", "sum", "equal"}

(* one device with k terminals 1..k; externals k+1..2k; `conn' = device terminals joined to their external *)
SingleScenPC(d, k, conn, pre, cons) ==
  [devs |-> <<d>>, nt |-> 2 * k, pre |-> pre, cons |-> cons,
   links |-> [x \in 1..(2 * k) |-> IF x <= k THEN (IF x \in conn THEN x + k ELSE 0)
                                   ELSE (IF (x - k) \in conn THEN x - k ELSE 0)]]
SingleScenP(d, k, conn, pre) == SingleScenPC(d, k, conn, pre, FALSE)
SingleScen(d, k, conn) == SingleScenP(d, k, conn, {})
(* every external terminal pre-loaded with states that already satisfy the device's constraint (idempotence clause) *)
ConsistentScen(d, k) == SingleScenPC(d, k, 1..k, (k + 1)..(2 * k), TRUE)
ConnSets(k) == IF Rich THEN SUBSET (1..k) ELSE {1..k, {}, {1}}

SingleScens ==
  (IF "invert" \in DevTypes THEN {SingleScen(Dev("invert", <<1, 2>>, One, "none"), 2, c) : c \in ConnSets(2)} ELSE {})
  \cup (IF "gear" \in DevTypes THEN {SingleScen(Dev("gear", <<1, 2>>, r, "none"), 2, c) : r \in Ratios, c \in ConnSets(2)} ELSE {})
  \cup (IF "gear" \in DevTypes THEN {SingleScen(DevTeeth(tl), 2, {1, 2}) : tl \in ToothLists} ELSE {})
  \cup (IF "axle" \in DevTypes
        THEN {SingleScen(Dev("axle", [i \in 1..k |-> i], One, "none"), k, 1..k) :
                 k \in (IF Rich THEN {0, 1, 2, 3, 4} ELSE {1, 3})} \cup
             {SingleScen(Dev("axle", <<1, 2, 3>>, One, "none"), 3, {2}),
              SingleScenP(Dev("axle", <<1, 2, 3>>, One, "none"), 3, {1, 2, 3}, {4, 5, 6}),
              SingleScenP(Dev("axle", <<1, 2, 3>>, One, "none"), 3, {1, 2, 3}, {1, 5})}
        ELSE {})
  \cup (IF "consistent" \in DevTypes
        THEN {ConsistentScen(Dev("invert", <<1, 2>>, One, "none"), 2)} \cup
             {ConsistentScen(Dev("gear", <<1, 2>>, r, "none"), 2) : r \in {RI(2), R(-1, 2)}} \cup
             {ConsistentScen(Dev("axle", <<1, 2, 3>>, One, "none"), 3)} \cup
             {ConsistentScen(Dev("diff", <<1, 2, 3>>, One, m), 3) : m \in Modes}
        ELSE {})
  \cup (IF "axlebig" \in DevTypes       \* axle sizes 0..8, nothing connected (constructor / scratch-slot clause of C16)
        THEN {SingleScen(Dev("axle", [i \in 1..k |-> i], One, "none"), k, {}) : k \in 0..8} ELSE {})
  \cup (IF "diff" \in DevTypes
        THEN {SingleScenP(Dev("diff", <<1, 2, 3>>, One, m), 3, c, pre) : m \in Modes,
                  c \in (IF Rich THEN {{1, 2, 3}, {}, {1, 3}} ELSE {{1, 2, 3}}), pre \in {{}, {4, 5, 6}, {1, 2, 6}}}
        ELSE {})

(* chain: ext0 = 1, device j has terminals 2j, 2j+1, extn = 2n+2 *)
ChainOf(types) ==
  LET m == Len(types)
  IN [devs |-> [j \in 1..m |-> Dev(types[j][1], <<2 * j, 2 * j + 1>>, types[j][2], "none")],
      nt |-> 2 * m + 2, pre |-> {}, cons |-> FALSE,
      links |-> [x \in 1..(2 * m + 2) |-> IF Mod(x, 2) = 1 THEN x + 1 ELSE x - 1]]
ChainLinkTypes == {<<"invert", One>>, <<"gear", RI(2)>>, <<"gear", R(-1, 2)>>, <<"axle", One>>} \cup
                  (IF Rich THEN {<<"gear", RI(3)>>} ELSE {})
ChainScens ==
  {ChainOf(<<a>>) : a \in ChainLinkTypes} \cup
  {ChainOf(<<a, b>>) : a \in ChainLinkTypes, b \in ChainLinkTypes} \cup
  (IF Rich THEN {ChainOf(<<a, b, c>>) : a \in ChainLinkTypes, b \in ChainLinkTypes, c \in ChainLinkTypes} ELSE
   {ChainOf(<<a, <<"gear", RI(2)>>, c>>) : a \in ChainLinkTypes, c \in {<<"invert", One>>, <<"axle", One>>}})

MatchScen == [devs |-> <<>>, nt |-> NT, pre |-> {}, cons |-> FALSE, links |-> [x \in 1..NT |-> 0]]

FollowScens ==
  {SingleScen(Dev("invert", <<1, 2>>, One, "none"), 2, {1, 2}), SingleScen(Dev("gear", <<1, 2>>, RI(2), "none"), 2, {1, 2}),
   SingleScen(Dev("axle", <<1, 2, 3>>, One, "none"), 3, {1, 2, 3}), SingleScen(Dev("diff", <<1, 2, 3>>, One, "sum"), 3, {1, 2, 3})} \cup
  (IF Rich THEN {SingleScen(Dev("gear", <<1, 2>>, R(-1, 2), "none"), 2, {2}), SingleScen(Dev("diff", <<1, 2, 3>>, One, "equal"), 3, {1, 2, 3}),
                 SingleScen(Dev("diff", <<1, 2, 3>>, One, "side1"), 3, {1, 3})} ELSE {})
Scens == CASE Family = "single" -> SingleScens
           [] Family = "follow" -> FollowScens
           [] Family = "chain" -> ChainScens
           [] Family \in {"match", "matchdata"} -> {MatchScen}

Terms == 1..scen.nt
DevIdx == 1..Len(scen.devs)

-----------------------------------------------------------------------------
(* Terminal reads (Getter<State>, Getter<Command>, Getter<TerminalData>).  *)
Partner(x) == link[x]
ReadStateIn(l, s, x) ==
  LET a == s[x]
      b == IF l[x] = 0 THEN Nothing ELSE s[l[x]]
  IN  IF IsNothing(a) THEN b
      ELSE IF IsNothing(b) THEN a
      ELSE Just(SD(MaxI(The(a).t, The(b).t), TDiv(TAdd(The(a).v, The(b).v), Two)))
ReadCmdIn(l, c, x) == SelectCmd(c[x], PartnerOpt(l, c, x))      \* partner wins only when strictly newer (TerminalLinks)
ReadState(x) == ReadStateIn(link, ost, x)
ReadCmd(x)   == ReadCmdIn(link, ocmd, x)
ReadDataIn(l, s, c, x) ==
  LET st == ReadStateIn(l, s, x)
      cm == ReadCmdIn(l, c, x)
  IN  IF IsNothing(st) /\ IsNothing(cm) THEN Nothing
      ELSE Just([t |-> IF IsJust(st) THEN The(st).t ELSE The(cm).t, cmd |-> cm, st |-> st])

-----------------------------------------------------------------------------
(* connect / disconnect: the link function stays a symmetric matching.     *)
(* Unlink and ConnectL are defined in module TerminalLinks *)

-----------------------------------------------------------------------------
(* Device updates.  Each takes the own states s0 and own commands c0 it works on and returns the new pair.                          *)
NewerOrEq(a, b) == a.t >= b.t
SetS(s, x, d) == [s EXCEPT ![x] = Just(d)]

InvertUpdate(d, s0, c0) ==
  LET a == d.terms[1]
      b == d.terms[2]
      g1 == ReadStateIn(link, s0, a)
      g2 == ReadStateIn(link, s0, b)
      s1 == IF IsNothing(g1) /\ IsNothing(g2) THEN s0
            ELSE IF IsNothing(g1) THEN SetS(s0, a, SD(The(g2).t, TNeg(The(g2).v)))
            ELSE IF IsNothing(g2) THEN SetS(s0, b, SD(The(g1).t, TNeg(The(g1).v)))
            ELSE LET t == MaxI(The(g1).t, The(g2).t)
                     v == TDiv(TSub(The(g1).v, The(g2).v), Two)
                 IN  SetS(SetS(s0, a, SD(t, v)), b, SD(t, TNeg(v)))
      c1 == ReadCmdIn(link, c0, a)
      c2 == ReadCmdIn(link, c0, b)
      pick == IF IsNothing(c1) /\ IsNothing(c2) THEN Nothing
              ELSE IF IsNothing(c2) THEN c1
              ELSE IF IsNothing(c1) THEN Just(CNeg(The(c2)))
              ELSE IF NewerOrEq(The(c1), The(c2)) THEN c1 ELSE Just(CNeg(The(c2)))
      cN == IF IsNothing(pick) THEN c0
            ELSE [c0 EXCEPT ![a] = pick, ![b] = Just(CNeg(The(pick)))]
  IN  <<s1, cN>>

GearUpdate(d, s0, c0) ==
  LET a == d.terms[1]
      b == d.terms[2]
      r == d.ratio
      g1 == ReadStateIn(link, s0, a)
      g2 == ReadStateIn(link, s0, b)
      s1 == IF IsNothing(g1) /\ IsNothing(g2) THEN s0
            ELSE IF IsNothing(g1) THEN SetS(s0, a, SD(The(g2).t, TDiv(The(g2).v, r)))
            ELSE IF IsNothing(g2) THEN SetS(s0, b, SD(The(g1).t, TMul(The(g1).v, r)))
            ELSE LET t == MaxI(The(g1).t, The(g2).t)
                     den == RAdd(RMul(r, r), One)
                     xry == TAdd(The(g1).v, TMul(The(g2).v, r))
                 IN  SetS(SetS(s0, a, SD(t, TDiv(xry, den))), b, SD(t, TDiv(TMul(xry, r), den)))
      c1 == ReadCmdIn(link, c0, a)
      c2 == ReadCmdIn(link, c0, b)
      cN == IF IsNothing(c1) /\ IsNothing(c2) THEN c0
            ELSE IF IsNothing(c2) THEN [c0 EXCEPT ![b] = Just(CScale(The(c1), r))]
            ELSE IF IsNothing(c1) THEN [c0 EXCEPT ![a] = Just(CDivide(The(c2), r))]
            ELSE IF NewerOrEq(The(c1), The(c2)) THEN [c0 EXCEPT ![b] = Just(CScale(The(c1), r))]
            ELSE [c0 EXCEPT ![a] = Just(CDivide(The(c2), r))]
  IN  <<s1, cN>>

RECURSIVE AxleSum(_, _, _)
AxleSum(ts, i, s0) ==     \* <<count, max time, sum>> over the first i terminals that have data
  IF i = 0 THEN <<0, -1000000, TZero>>
  ELSE LET p == AxleSum(ts, i - 1, s0)
           g == ReadStateIn(link, s0, ts[i])
       IN  IF IsNothing(g) THEN p ELSE <<p[1] + 1, MaxI(p[2], The(g).t), TAdd(p[3], The(g).v)>>
RECURSIVE AxleNewest(_, _, _)
AxleNewest(ts, i, c0) ==  \* newest command, the first of the newest on ties
  IF i = 0 THEN Nothing
  ELSE LET p == AxleNewest(ts, i - 1, c0)
           g == ReadCmdIn(link, c0, ts[i])
       IN  IF IsNothing(g) THEN p
           ELSE IF IsNothing(p) THEN g
           ELSE IF The(g).t > The(p).t THEN g ELSE p
AxleUpdate(d, s0, c0) ==
  LET ts == d.terms
      m == Len(ts)
      acc == AxleSum(ts, m, s0)
      s1 == IF acc[1] = 0 THEN s0
            ELSE [x \in DOMAIN s0 |-> IF \E i \in 1..m : ts[i] = x
                                       THEN Just(SD(acc[2], TDiv(acc[3], RI(acc[1])))) ELSE s0[x]]
      nw == AxleNewest(ts, m, c0)
      cN == IF IsNothing(nw) THEN c0
            ELSE [x \in DOMAIN c0 |-> IF \E i \in 1..m : ts[i] = x THEN nw ELSE c0[x]]
  IN  <<s1, cN>>

Max3(a, b, c) == MaxI(MaxI(a, b), c)
DiffUpdate(d, s0, c0) ==
  LET a == d.terms[1]
      b == d.terms[2]
      c == d.terms[3]
      g1 == ReadStateIn(link, s0, a)
      g2 == ReadStateIn(link, s0, b)
      gs == ReadStateIn(link, s0, c)
      s1 == CASE d.distrust = "side1" ->
                   IF IsNothing(gs) \/ IsNothing(g2) THEN s0
                   ELSE SetS(s0, a, SD(MaxI(The(gs).t, The(g2).t), TSub(The(gs).v, The(g2).v)))
              [] d.distrust = "side2" ->
                   IF IsNothing(gs) \/ IsNothing(g1) THEN s0
                   ELSE SetS(s0, b, SD(MaxI(The(gs).t, The(g1).t), TSub(The(gs).v, The(g1).v)))
              [] d.distrust = "sum" ->
                   IF IsNothing(g1) \/ IsNothing(g2) THEN s0
                   ELSE SetS(s0, c, SD(MaxI(The(g1).t, The(g2).t), TAdd(The(g1).v, The(g2).v)))
              [] d.distrust = "equal" ->
                   IF IsNothing(g1) \/ IsNothing(g2) \/ IsNothing(gs) THEN s0
                   ELSE LET t == Max3(The(g1).t, The(g2).t, The(gs).t)
                            x == The(g1).v
                            y == The(g2).v
                            z == The(gs).v
                            three == RI(3)
                        IN  SetS(SetS(SetS(s0,
                              c, SD(t, TDiv(TAdd(TAdd(x, y), TMul(z, Two)), three))),
                              a, SD(t, TDiv(TAdd(TSub(TMul(x, Two), y), z), three))),
                              b, SD(t, TDiv(TAdd(TAdd(TNeg(x), TMul(y, Two)), z), three)))
  IN  <<s1, c0>>     \* a differential never touches commands

(* Device::update_terminals: every own terminal, in the device's order, pulls its command getter and then its state getter *)
(* (Terminal::update); a present datum goes into the own slot as it is; the first error ends the update and is returned.    *)
FolOff == [on |-> FALSE, s |-> Absent, c |-> Absent]
RECURSIVE PullFrom(_, _, _, _)
PullFrom(ts, i, s0, c0) ==
  IF i > Len(ts) THEN [s |-> s0, c |-> c0, ret |-> RetOk]
  ELSE LET x == ts[i]
           f == fol[x]
       IN  IF ~f.on THEN PullFrom(ts, i + 1, s0, c0)
           ELSE IF IsErr(f.c) THEN [s |-> s0, c |-> c0, ret |-> RetErr(f.c.e)]
           ELSE LET c1 == IF IsSome(f.c) THEN [c0 EXCEPT ![x] = Just(CD(f.c.t, f.c.v.k, f.c.v.v))] ELSE c0
                IN  IF IsErr(f.s) THEN [s |-> s0, c |-> c1, ret |-> RetErr(f.s.e)]
                    ELSE PullFrom(ts, i + 1, IF IsSome(f.s) THEN [s0 EXCEPT ![x] = Just(SD(f.s.t, f.s.v))] ELSE s0, c1)

DevUpdate(d, s0, c0) ==
  CASE d.type = "invert" -> InvertUpdate(d, s0, c0)
    [] d.type = "gear" -> GearUpdate(d, s0, c0)
    [] d.type = "axle" -> AxleUpdate(d, s0, c0)
    [] d.type = "diff" -> DiffUpdate(d, s0, c0)

-----------------------------------------------------------------------------
(* Observation of every terminal after an action (what the harness reads). *)
ObsAll(l, s, c) ==
  [x \in DOMAIN l |-> [st |-> ReadStateIn(l, s, x), cmd |-> ReadCmdIn(l, c, x), data |-> ReadDataIn(l, s, c, x),
                       ost |-> s[x], ocmd |-> c[x], link |-> l[x]]]

(* Values written by the environment are functions of (terminal, time) so  *)
(* that every write is distinguishable and one letter per terminal suffices.*)
StateVal(x, t) == T3(RI(4 * x + t), RI(3 * t - 2 * x), RI(Mod(x * t, 5) - 2))
CmdKind(x, t)  == Mod(x + t, 3)
CmdVal(x, t)   == RI(2 * x - 3 * t + 1)

(* states at the external terminals that already satisfy the constraint of device d (i = index of the device terminal they join) *)
S0 == T3(RI(4), RI(-2), RI(6))
S1 == T3(RI(1), RI(3), RI(-5))
ConsVal(d, i) ==
  CASE d.type = "invert" -> IF i = 1 THEN S0 ELSE TNeg(S0)
    [] d.type = "gear" -> IF i = 1 THEN S0 ELSE TMul(S0, d.ratio)
    [] d.type = "axle" -> S0
    [] d.type = "diff" -> IF i = 1 THEN S0 ELSE IF i = 2 THEN S1 ELSE TAdd(S0, S1)

Init ==
  /\ scen \in Scens
  /\ IF Family = "match" /\ InitAny
     THEN link \in {l \in [1..NT -> 0..NT] : \A x \in 1..NT : l[x] # x /\ (l[x] # 0 => l[l[x]] = x)}
     ELSE link = scen.links
  /\ IF Family \in {"match"}
     THEN /\ ost = [x \in 1..scen.nt |-> Just(SD(x, T3(RI(2 ^ x), RI(-(2 ^ x)), RI(x))))]
          /\ ocmd = [x \in 1..scen.nt |-> Just(CD(x, Mod(x, 3), RI(x)))]
     ELSE IF Family = "matchdata"
     THEN /\ ost \in [1..scen.nt -> {Nothing} \cup {Just(SD(t, T3(RI(t + 1), RI(2 * t), RI(3)))) : t \in {1, 2}}]
          /\ ocmd \in {[x \in 1..scen.nt |-> IF p[x] = 0 THEN Nothing ELSE Just(CD(p[x], Mod(x, 3), RI(x + p[x])))] :
                           p \in {q \in [1..scen.nt -> 0..scen.nt] :
                                     \A x, y \in 1..scen.nt : (x # y /\ q[x] # 0) => q[x] # q[y]}}
     ELSE /\ ost = [x \in 1..scen.nt |-> IF x \in scen.pre
                                          THEN Just(SD(0, IF scen.cons THEN ConsVal(scen.devs[1], x - Len(scen.devs[1].terms)) ELSE StateVal(x, 0)))
                                          ELSE Nothing]
          /\ ocmd = [x \in 1..scen.nt |-> Nothing]
  /\ now = IF Family \in {"match", "matchdata"} THEN 10 ELSE IF scen.pre = {} THEN -1 ELSE 0   \* first write has rank 0 or 1
  /\ hist = IF Emit THEN <<[a |-> [op |-> "init"], obs |-> ObsAll(link, ost, ocmd)]>> ELSE <<>>
  /\ n = 0
  /\ sweep = [on |-> FALSE]
  /\ fol = [x \in 1..scen.nt |-> IF Family = "follow" /\ x <= Len(scen.devs[1].terms) THEN [FolOff EXCEPT !.on = TRUE] ELSE FolOff]

Record(a, l, s, c) == IF Emit THEN Append(hist, [a |-> a, obs |-> ObsAll(l, s, c)]) ELSE hist

SetState(x) ==
  /\ now' = now + 1
  /\ ost' = [ost EXCEPT ![x] = Just(SD(now', StateVal(x, now')))]
  /\ UNCHANGED <<link, ocmd, scen, fol>>
  /\ sweep' = sweep
  /\ hist' = Record([op |-> "setstate", x |-> x, t |-> now', v |-> StateVal(x, now')], link, ost', ocmd)

SetCmdK(x, k) ==
  /\ now' = now + 1
  /\ ocmd' = [ocmd EXCEPT ![x] = Just(CD(now', k, CmdVal(x, now')))]
  /\ UNCHANGED <<link, ost, scen, fol>>
  /\ sweep' = IF Family = "chain" /\ x = 1
              THEN [on |-> TRUE, next |-> 1, cmd |-> CD(now', k, CmdVal(x, now'))]
              ELSE [on |-> FALSE]        \* a newer command elsewhere ends the tracked sweep
  /\ hist' = Record([op |-> "setcmd", x |-> x, t |-> now', k |-> k, v |-> CmdVal(x, now')], link, ost, ocmd')
SetCmd(x) == IF Rich THEN \E k \in 0..2 : SetCmdK(x, k) ELSE SetCmdK(x, CmdKind(x, now + 1))

Update(j) ==
  LET d == scen.devs[j]
      p == PullFrom(d.terms, 1, ost, ocmd)                       \* identity unless some terminal follows a getter
      r == IF p.ret = RetOk THEN DevUpdate(d, p.s, p.c) ELSE <<p.s, p.c>>
  IN  /\ ost' = r[1]
      /\ ocmd' = r[2]
      /\ UNCHANGED <<link, now, scen, fol>>
      /\ sweep' = IF sweep.on /\ sweep.next = j THEN [sweep EXCEPT !.next = j + 1] ELSE sweep
      /\ hist' = Record([op |-> "update", d |-> j, ret |-> p.ret], link, ost', ocmd')

(* the environment changes what a followed getter returns: an error, nothing, a fresh datum, or a datum with an old timestamp *)
GetOutcome(x, which, o, t) ==
  CASE o = "err" -> Err(IF which = "s" THEN 1 ELSE 2)
    [] o = "none" -> Absent
    [] o = "some" -> Some(t, IF which = "s" THEN StateVal(x, t) ELSE [k |-> CmdKind(x, t), v |-> CmdVal(x, t)])
    [] o = "old" -> Some(0, IF which = "s" THEN StateVal(x, t) ELSE [k |-> CmdKind(x, t), v |-> CmdVal(x, t)])
SetGetter(x, which, o) ==
  /\ now' = now + 1
  /\ fol' = [fol EXCEPT ![x] = IF which = "s" THEN [@ EXCEPT !.s = GetOutcome(x, "s", o, now')] ELSE [@ EXCEPT !.c = GetOutcome(x, "c", o, now')]]
  /\ UNCHANGED <<link, ost, ocmd, scen, sweep>>
  /\ hist' = Record([op |-> "getter", x |-> x, which |-> which, o |-> GetOutcome(x, which, o, now')], link, ost, ocmd)

Connect(i, j) ==
  /\ i # j
  /\ link' = ConnectL(link, i, j)
  /\ UNCHANGED <<ost, ocmd, now, scen, sweep, fol>>
  /\ hist' = Record([op |-> "connect", i |-> i, j |-> j], link', ost, ocmd)

Disconnect(i) ==
  /\ link' = Unlink(link, i)
  /\ UNCHANGED <<ost, ocmd, now, scen, sweep, fol>>
  /\ hist' = Record([op |-> "disconnect", i |-> i], link', ost, ocmd)

Step ==
  \/ /\ Family = "single"
     /\ \/ \E x \in Terms : SetState(x)
        \/ \E x \in Terms : SetCmd(x)
        \/ \E j \in DevIdx : Update(j)
  \/ /\ Family = "chain"         \* commands enter at the two ends and at one inner terminal
     /\ \/ SetState(1)
        \/ \E x \in {1, scen.nt} \cup (IF scen.nt >= 6 THEN {4} ELSE {}) : SetCmd(x)
        \/ \E j \in DevIdx : Update(j)
  \/ /\ Family = "follow"
     /\ \/ \E x \in 1..Len(scen.devs[1].terms), o \in {"err", "none", "some", "old"} : SetGetter(x, "s", o)
        \/ \E x \in 1..Len(scen.devs[1].terms), o \in {"err", "some"} \cup (IF Rich THEN {"none", "old"} ELSE {}) : SetGetter(x, "c", o)
        \/ \E x \in (Len(scen.devs[1].terms) + 1)..scen.nt : SetState(x)
        \/ Update(1)
  \/ /\ Family \in {"match", "matchdata"}
     /\ \/ \E i, j \in Terms : Connect(i, j)
        \/ \E i \in Terms : Disconnect(i)

(* With Emit = FALSE the step counter is frozen, so that TLC explores the whole reachable graph. *)
Next == /\ (Emit => n < MaxLen)
        /\ n' = IF Emit THEN n + 1 ELSE n
        /\ Step
Spec == Init /\ [][Next]_vars

-----------------------------------------------------------------------------
(* Properties.                                                             *)

(* C09: links form a symmetric matching. *)
Matching == \A x \in Terms : link[x] # 0 => (link[x] # x /\ link[x] \in Terms /\ link[link[x]] = x)
(* C09: connect(i, j) links exactly i and j and frees their former partners (action property). *)
ConnectLaw ==
  [][\A i, j \in Terms :
        (i # j /\ link' = ConnectL(link, i, j)) =>
           /\ link'[i] = j /\ link'[j] = i
           /\ \A x \in Terms \ {i, j} : link'[x] = (IF link[x] \in {i, j} THEN 0 ELSE link[x])]_vars
(* C09: two connected terminals read the same state; the command read is a candidate and none is newer. *)
ReadLaws ==
  \A x \in Terms :
     /\ link[x] # 0 => ReadState(x) = ReadState(link[x])
     /\ IsJust(ReadCmd(x)) =>
          /\ ReadCmd(x) \in {ocmd[x]} \cup (IF link[x] = 0 THEN {} ELSE {ocmd[link[x]]})
          /\ (IsJust(ocmd[x]) => The(ocmd[x]).t <= The(ReadCmd(x)).t)
          /\ (link[x] # 0 /\ IsJust(ocmd[link[x]]) => The(ocmd[link[x]]).t <= The(ReadCmd(x)).t)
     /\ IsJust(ReadState(x)) => ReadDataIn(link, ost, ocmd, x) # Nothing /\ The(ReadDataIn(link, ost, ocmd, x)).t = The(ReadState(x)).t

(* C08: after an update that saw a state at every terminal the written own *)
(* states satisfy the constraint and are the least-squares projection of   *)
(* the reads onto it (normal equations in exact rationals); states that    *)
(* already satisfy the constraint are unchanged; timestamp = newest read.  *)
AllPresent(d, l, s) == \A i \in 1..Len(d.terms) : IsJust(ReadStateIn(l, s, d.terms[i]))
OwnV(s, x) == The(s[x]).v
RdV(l, s, x) == The(ReadStateIn(l, s, x)).v
RECURSIVE MaxReadT(_, _, _, _)
MaxReadT(d, l, s, i) == IF i = 0 THEN -1000000 ELSE MaxI(MaxReadT(d, l, s, i - 1), The(ReadStateIn(l, s, d.terms[i])).t)
ProjectionLaw(d, l, s, s2) ==       \* s: own states before, s2: after the update of d
  AllPresent(d, l, s) =>
    LET a == d.terms[1]
        tm == MaxReadT(d, l, s, Len(d.terms))
    IN
    CASE d.type = "invert" ->
           LET b == d.terms[2]
           IN  /\ OwnV(s2, b) = TNeg(OwnV(s2, a))
               /\ TSub(TSub(RdV(l, s, a), OwnV(s2, a)), TSub(RdV(l, s, b), OwnV(s2, b))) = TZero   \* residual . (1,-1)
               /\ The(s2[a]).t = tm /\ The(s2[b]).t = tm
      [] d.type = "gear" ->
           LET b == d.terms[2]
           IN  /\ OwnV(s2, b) = TMul(OwnV(s2, a), d.ratio)
               /\ TAdd(TSub(RdV(l, s, a), OwnV(s2, a)), TMul(TSub(RdV(l, s, b), OwnV(s2, b)), d.ratio)) = TZero  \* residual . (1,r)
               /\ The(s2[a]).t = tm /\ The(s2[b]).t = tm
      [] d.type = "axle" ->
           Len(d.terms) >= 1 =>
             /\ \A i \in 1..Len(d.terms) : s2[d.terms[i]] = s2[a]
             /\ LET RECURSIVE Res(_)
                    Res(i) == IF i = 0 THEN TZero ELSE TAdd(Res(i - 1), TSub(RdV(l, s, d.terms[i]), OwnV(s2, a)))
                IN  Res(Len(d.terms)) = TZero                                                       \* residual . (1,..,1)
             /\ The(s2[a]).t = tm
      [] d.type = "diff" ->
           LET b == d.terms[2]
               c == d.terms[3]
           IN  /\ d.distrust # "equal" \/ TAdd(OwnV(s2, a), OwnV(s2, b)) = OwnV(s2, c)
               /\ d.distrust = "equal" =>
                    /\ TAdd(TSub(RdV(l, s, a), OwnV(s2, a)), TSub(RdV(l, s, c), OwnV(s2, c))) = TZero       \* . (1,0,1)
                    /\ TAdd(TSub(RdV(l, s, b), OwnV(s2, b)), TSub(RdV(l, s, c), OwnV(s2, c))) = TZero       \* . (0,1,1)
                    /\ The(s2[a]).t = tm /\ The(s2[b]).t = tm /\ The(s2[c]).t = tm
               /\ d.distrust = "side1" => OwnV(s2, a) = TSub(RdV(l, s, c), RdV(l, s, b))
               /\ d.distrust = "side2" => OwnV(s2, b) = TSub(RdV(l, s, c), RdV(l, s, a))
               /\ d.distrust = "sum"   => OwnV(s2, c) = TAdd(RdV(l, s, a), RdV(l, s, b))
SatisfiesConstraint(d, l, s) ==
  AllPresent(d, l, s) /\
  CASE d.type = "invert" -> RdV(l, s, d.terms[2]) = TNeg(RdV(l, s, d.terms[1]))
    [] d.type = "gear" -> RdV(l, s, d.terms[2]) = TMul(RdV(l, s, d.terms[1]), d.ratio)
    [] d.type = "axle" -> \A i \in 1..Len(d.terms) : RdV(l, s, d.terms[i]) = RdV(l, s, d.terms[1])
    [] d.type = "diff" -> TAdd(RdV(l, s, d.terms[1]), RdV(l, s, d.terms[2])) = RdV(l, s, d.terms[3])
Trusted(d) == CASE d.distrust = "side1" -> {2, 3} [] d.distrust = "side2" -> {1, 3}
                 [] d.distrust = "sum" -> {1, 2} [] OTHER -> {1, 2, 3}
Written(d) == IF d.type # "diff" THEN 1..Len(d.terms)
              ELSE CASE d.distrust = "side1" -> {1} [] d.distrust = "side2" -> {2}
                     [] d.distrust = "sum" -> {3} [] OTHER -> {1, 2, 3}
IdempotenceLaw(d, l, s, s2) ==
  SatisfiesConstraint(d, l, s) => \A i \in Written(d) : OwnV(s2, d.terms[i]) = RdV(l, s, d.terms[i])
(* a differential does nothing until every branch it trusts has data *)
DiffWaits(d, l, s, s2) ==
  (d.type = "diff" /\ \E i \in Trusted(d) : IsNothing(ReadStateIn(l, s, d.terms[i]))) => s2 = s
UpdateLaws ==
  [][\A j \in DevIdx :
        (<<ost', ocmd'>> = DevUpdate(scen.devs[j], ost, ocmd) /\ now' = now /\ link' = link /\ fol' = fol) =>
            /\ ProjectionLaw(scen.devs[j], link, ost, ost')
            /\ IdempotenceLaw(scen.devs[j], link, ost, ost')
            /\ DiffWaits(scen.devs[j], link, ost, ost')
            /\ (scen.devs[j].type = "diff" => ocmd' = ocmd)]_vars

(* C13: after an update of a one-degree-of-freedom device, every terminal  *)
(* of it reads the newest command present at its terminals before the      *)
(* update, mapped from the issuing side to the reading side.               *)
RECURSIVE NewestAt(_, _, _, _)
NewestAt(d, l, c, i) ==      \* <<index of the terminal holding the newest command read, the command>>
  IF i = 0 THEN <<0, Nothing>>
  ELSE LET p == NewestAt(d, l, c, i - 1)
           g == ReadCmdIn(l, c, d.terms[i])
       IN  IF IsNothing(g) THEN p
           ELSE IF p[1] = 0 \/ The(g).t > The(p[2]).t THEN <<i, g>> ELSE p
MapCmd(d, from, to, c) ==
  CASE d.type = "invert" -> IF from = to THEN c ELSE CNeg(c)
    [] d.type = "gear" -> IF from = to THEN c ELSE IF from = 1 THEN CScale(c, d.ratio) ELSE CDivide(c, d.ratio)
    [] d.type = "axle" -> c
RelayLaw ==
  [][\A j \in DevIdx :
        (<<ost', ocmd'>> = DevUpdate(scen.devs[j], ost, ocmd) /\ now' = now /\ link' = link /\ scen.devs[j].type # "diff") =>
           LET d == scen.devs[j]
               nw == NewestAt(d, link, ocmd, Len(d.terms))
           IN  nw[1] # 0 =>
                 \A i \in 1..Len(d.terms) :
                    ReadCmdIn(link, ocmd', d.terms[i]) = Just(MapCmd(d, nw[1], i, The(nw[2])))]_vars

(* C13: across a chain the command set at ext0 reaches the far end scaled  *)
(* by the product of the ratios once D1..Dn have been updated in order.    *)
RECURSIVE ChainMap(_, _)
ChainMap(c, j) == IF j = 0 THEN c ELSE MapCmd(scen.devs[j], 1, 2, ChainMap(c, j - 1))
ChainLaw ==
  (Family = "chain" /\ sweep.on /\ sweep.next = Len(scen.devs) + 1) =>
     ReadCmd(scen.nt) = Just(ChainMap(sweep.cmd, Len(scen.devs)))

(* Following (C15 on device terminals): an update fails exactly when a followed getter of the device reports an error, with the    *)
(* error of the first such getter in the device's order (command before state); after a failed update the terminals behind the  *)
(* failing one are untouched; after a successful one the pulled data were stored before the device computed.                    *)
FirstErr(ts, i) ==
  LET RECURSIVE F(_)
      F(k) == IF k > Len(ts) THEN RetOk
              ELSE LET f == fol[ts[k]]
                   IN  IF f.on /\ IsErr(f.c) THEN RetErr(f.c.e) ELSE IF f.on /\ IsErr(f.s) THEN RetErr(f.s.e) ELSE F(k + 1)
  IN  F(i)
FollowLaw ==
  \A j \in DevIdx :
     LET d == scen.devs[j]
         p == PullFrom(d.terms, 1, ost, ocmd)
     IN  /\ p.ret = FirstErr(d.terms, 1)
         /\ \A i \in 1..Len(d.terms) :
               LET x == d.terms[i]
               IN  /\ (fol[x].on /\ FirstErr(d.terms, 1) = RetOk /\ IsSome(fol[x].s)) => p.s[x] = Just(SD(fol[x].s.t, fol[x].s.v))
                   /\ (~fol[x].on \/ (IsAbsent(fol[x].s) /\ FirstErr(d.terms, 1) = RetOk)) => p.s[x] = ost[x]
         /\ \A x \in Terms : (\A i \in 1..Len(d.terms) : d.terms[i] # x) => (p.s[x] = ost[x] /\ p.c[x] = ocmd[x])

EmitInv ==
  (Emit /\ n = MaxLen) =>
     PrintT(<<"B", ToJson([family |-> Family, scen |-> scen, steps |-> hist])>>)

(* keep numbers small *)
DSmall(a) == Abs(a[1]) < 20000 /\ a[2] <= 1000
Bound == \A x \in Terms : /\ IsJust(ost[x]) => (DSmall(The(ost[x]).v[1]) /\ DSmall(The(ost[x]).v[2]) /\ DSmall(The(ost[x]).v[3]))
                          /\ IsJust(ocmd[x]) => DSmall(The(ocmd[x]).v)
=============================================================================
