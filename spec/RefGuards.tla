----------------------------- MODULE RefGuards -----------------------------
(***************************************************************************)
(* Borrow discipline of rrtk's Reference<T> within ONE thread: the guards  *)
(* returned by borrow() / borrow_mut() of the six variants.  This is       *)
(* behaviour beyond the listed properties (C17 speaks of what handles      *)
(* observe and of lost updates, not of which borrows may coexist); it is   *)
(* specified and bound to the code all the same, and a deviation is        *)
(* reported as an EXTRA-DEVIATION note, never as a violation of C17.       *)
(*                                                                         *)
(*   RcRefCell           like a RefCell: any number of readers or one      *)
(*                       writer; a conflicting borrow PANICS                *)
(*   ArcRwLock, PtrRwLock  any number of readers or one writer; a          *)
(*                       conflicting borrow would BLOCK (not explored: in  *)
(*                       one thread that is a deadlock)                    *)
(*   ArcMutex, PtrMutex  one guard of either kind at a time                *)
(*   Ptr                 unchecked; the model takes one guard at a time    *)
(* Every guard reads the value last written through any writer guard.      *)
(***************************************************************************)
EXTENDS Integers, Sequences, FiniteSets, TLC, Json

CONSTANTS MaxLen, MaxGuards, Emit

Variants == {"Ptr", "RcRefCell", "PtrRwLock", "PtrMutex", "ArcRwLock", "ArcMutex"}

VARIABLES variant, guards, value, hist, n
vars == <<variant, guards, value, hist, n>>

(* guards: sequence of "r", "w" or "x" (released); ids are positions *)
Held == {i \in 1..Len(guards) : guards[i] # "x"}
Readers == {i \in Held : guards[i] = "r"}
Writers == {i \in Held : guards[i] = "w"}

(* what acquiring a guard of kind k does right now: "ok", "panic" or "blocks" *)
Acq(k) ==
  CASE variant = "RcRefCell" -> IF k = "r" THEN (IF Writers = {} THEN "ok" ELSE "panic") ELSE (IF Held = {} THEN "ok" ELSE "panic")
    [] variant \in {"ArcRwLock", "PtrRwLock"} -> IF k = "r" THEN (IF Writers = {} THEN "ok" ELSE "blocks") ELSE (IF Held = {} THEN "ok" ELSE "blocks")
    [] variant \in {"ArcMutex", "PtrMutex"} -> IF Held = {} THEN "ok" ELSE "blocks"
    [] variant = "Ptr" -> IF Held = {} THEN "ok" ELSE "blocks"          \* unchecked in the code; the model stays within sound use

Init == /\ variant \in Variants
        /\ guards = <<>>
        /\ value = 0
        /\ hist = <<>>
        /\ n = 0

Rec(a) == IF Emit THEN Append(hist, [a |-> a, value |-> value', guards |-> guards']) ELSE hist

Acquire(k) ==
  /\ Cardinality(Held) < MaxGuards
  /\ Acq(k) # "blocks"                       \* a borrow that would block is a deadlock in one thread: not part of any behaviour
  /\ guards' = IF Acq(k) = "ok" THEN Append(guards, k) ELSE guards
  /\ UNCHANGED <<variant, value>>
  /\ hist' = Rec([op |-> "acquire", kind |-> k, outcome |-> Acq(k)])
Release(i) ==
  /\ i \in Held
  /\ guards' = [guards EXCEPT ![i] = "x"]
  /\ UNCHANGED <<variant, value>>
  /\ hist' = Rec([op |-> "release", g |-> i])
WriteThrough(i) ==
  /\ i \in Writers
  /\ value' = n + 1
  /\ UNCHANGED <<variant, guards>>
  /\ hist' = Rec([op |-> "write", g |-> i, v |-> n + 1])
ReadAll ==                                   \* every held guard is read; each must show the value last written
  /\ Held # {}
  /\ UNCHANGED <<variant, guards, value>>
  /\ hist' = Rec([op |-> "read"])

Next == /\ n < MaxLen /\ n' = n + 1
        /\ \/ Acquire("r") \/ Acquire("w")
           \/ \E i \in 1..Len(guards) : Release(i) \/ WriteThrough(i)
           \/ ReadAll
Spec == Init /\ [][Next]_vars

(* a writer is alone; several readers coexist only where the variant allows it *)
Exclusion == /\ Writers # {} => Cardinality(Held) = 1
             /\ (variant \in {"ArcMutex", "PtrMutex", "Ptr"}) => Cardinality(Held) <= 1
(* the read / write variants really admit two readers somewhere in the explored graph (checked by the driver through the emitted behaviours) *)
Laws == Exclusion

EmitInv == (Emit /\ n = MaxLen) => PrintT(<<"B", ToJson([variant |-> variant, family |-> "guards", steps |-> hist])>>)
=============================================================================
