------------------------------ MODULE TimeInt ------------------------------
(***************************************************************************)
(* rrtk's integer quantities: Time (nanoseconds) and DimensionlessInteger. *)
(*  family "int":   every operator form between the two that stays an      *)
(*                  integer, on a small grid, as exact integer arithmetic  *)
(*                  (division truncates toward zero).  The harness scales  *)
(*                  operands by powers of two up to 2^62 (homomorphic      *)
(*                  concretisation: sums keep the scale, products add the  *)
(*                  scales, exact quotients subtract them), so the 32-bit  *)
(*                  model predicts 64-bit results exactly.                 *)
(*  family "mixed": every operator form mixing Quantity with Time or       *)
(*                  DimensionlessInteger (or Time with Time, integer with  *)
(*                  Time) that yields a Quantity, with the conversion      *)
(*                  schema "convert the non-Quantity operands, then apply  *)
(*                  the Quantity operator in the same operand order", and  *)
(*                  when it panics (unit mismatch of add/sub).             *)
(*  family "conv":  Time <-> Quantity conversion on the exact sub-domain   *)
(*                  ns = m * 5^9 * 2^j (m <= 7): seconds = m * 2^(j-9)     *)
(*                  exactly, in both directions; every unit other than     *)
(*                  seconds is refused (DimensionlessInteger: every unit   *)
(*                  other than dimensionless).                             *)
(***************************************************************************)
EXTENDS Integers, Sequences, TLC, Json, Outcome

CONSTANTS Family, DimCheck, Emit
VARIABLE case
vars == <<case>>

Vals == -12..12
TruncDiv(a, b) == LET q == (IF a < 0 THEN -a ELSE a) \div (IF b < 0 THEN -b ELSE b)
                  IN  IF (a < 0) # (b < 0) THEN -q ELSE q

(* forms that stay integral: <<left kind, right kind, form, assign allowed, result kind>> *)
IntForms ==
  {<<"t", "t", f, a, "t">> : f \in {"add", "sub"}, a \in BOOLEAN} \cup
  {<<"t", "di", f, a, "t">> : f \in {"mul", "div"}, a \in BOOLEAN} \cup
  {<<"di", "di", f, a, "di">> : f \in {"add", "sub", "mul", "div"}, a \in BOOLEAN} \cup
  {<<"di", "t", "mul", FALSE, "t">>} \cup
  {<<"t", "t", "neg", FALSE, "t">>, <<"di", "di", "neg", FALSE, "di">>,
   <<"t", "t", "from_i64", FALSE, "t">>, <<"di", "di", "from_i64", FALSE, "di">>}
IntResult(f, a, b) ==
  CASE f = "add" -> a + b [] f = "sub" -> a - b [] f = "mul" -> a * b [] f = "div" -> TruncDiv(a, b)
    [] f = "neg" -> -a [] f = "from_i64" -> a

IntInit ==
  \E fm \in IntForms : \E a \in Vals, b \in Vals :
     /\ (fm[3] = "div" => b # 0)
     /\ (fm[3] \in {"neg", "from_i64"} => b = 0)
     /\ case = [family |-> "int", lk |-> fm[1], rk |-> fm[2], form |-> fm[3], assign |-> fm[4], resk |-> fm[5],
                a |-> a, b |-> b, res |-> IntResult(fm[3], a, b),
                exact |-> (fm[3] # "div" \/ (b # 0 /\ a = b * TruncDiv(a, b)))]

(* mixed forms yielding a Quantity *)
Grid == {<<m, s>> : m \in -3..3, s \in -3..3}
SEC == <<0, 1>>
NONE == <<0, 0>>
UnitOfK(k, u) == CASE k = "q" -> u [] k = "t" -> SEC [] k = "di" -> NONE
MixedForms ==
  {<<"q", k, f, a>> : k \in {"t", "di"}, f \in {"add", "sub", "mul", "div"}, a \in BOOLEAN} \cup
  {<<k, "q", f, FALSE>> : k \in {"t", "di"}, f \in {"add", "sub", "mul", "div"}} \cup
  {<<"t", "t", "mul", FALSE>>, <<"t", "t", "div", FALSE>>, <<"di", "t", "div", FALSE>>}
MixedInit ==
  \E fm \in MixedForms : \E u \in Grid :
     /\ (fm[1] # "q" /\ fm[2] # "q" => u = NONE)
     /\ LET L == UnitOfK(fm[1], u)
            R == UnitOfK(fm[2], u)
        IN  case = [family |-> "mixed", lk |-> fm[1], rk |-> fm[2], form |-> fm[3], assign |-> fm[4], u |-> u,
                    convl |-> fm[1] # "q", convr |-> fm[2] # "q",
                    panic |-> (DimCheck /\ fm[3] \in {"add", "sub"} /\ L # R)]

(* conversions on the exact sub-domain *)
ConvInit ==
  \/ \E m \in {0, 1, 3, 5, 7, -1, -3, -7}, j \in {0, 1, 5, 9, 10, 20, 31, 39} :
        case = [family |-> "conv", form |-> "exact", m |-> m, j |-> j]          \* ns = m * 5^9 * 2^j, seconds = m * 2^(j-9)
  \/ \E m \in {1, 3, 5, 7, -1, -5}, j \in 10..16 :                         \* seconds = m * 2^-j: value * 1e9 = m * 5^9 / 2^(j-9) has a fractional part
        case = [family |-> "conv", form |-> "truncate", m |-> m, j |-> j, ns |-> TruncDiv(m * 1953125, 2 ^ (j - 9))]   \* truncation toward zero
  \/ \E u \in Grid :
        case = [family |-> "conv", form |-> "time_try_from", u |-> u, ok |-> (~DimCheck) \/ u = SEC]
  \/ \E u \in Grid :
        case = [family |-> "conv", form |-> "di_try_from", u |-> u, ok |-> (~DimCheck) \/ u = NONE]

Init == CASE Family = "int" -> IntInit [] Family = "mixed" -> MixedInit [] Family = "conv" -> ConvInit
Next == UNCHANGED case
Spec == Init /\ [][Next]_vars

(* Laws of the integer algebra (exact i64 arithmetic is a ring with truncating division) *)
IntLaw ==
  (Family = "int") =>
     /\ (case.form = "div" => /\ case.a = case.b * case.res + (case.a - case.b * case.res)
                              /\ (IF case.a - case.b * case.res < 0 THEN -(case.a - case.b * case.res) ELSE case.a - case.b * case.res)
                                   < (IF case.b < 0 THEN -case.b ELSE case.b)
                              /\ (case.a - case.b * case.res = 0 \/ ((case.a - case.b * case.res < 0) <=> (case.a < 0))))   \* remainder has the sign of the dividend
     /\ (case.form = "sub" => case.res + case.b = case.a)
     /\ (case.form = "neg" => case.res + case.a = 0)
MixedLaw == (Family = "mixed" /\ ~DimCheck) => ~case.panic
Laws == IntLaw /\ MixedLaw

EmitInv == Emit => PrintT(<<"B", ToJson([dimcheck |-> DimCheck, case |-> case])>>)
=============================================================================
