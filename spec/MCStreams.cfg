SPECIFICATION Spec
CONSTANTS
  Kinds = {"PID", "CmdPID", "CmdPIDF", "EWMA", "EWMAQ", "MA", "MAQ", "Integral", "Derivative", "AccToState", "VelToState", "PosToState", "F2Q", "Q2F", "Freeze"}
  MaxLen = 4
  Emit = FALSE
  DimCheck = TRUE
  Rich = FALSE
  UnitGrid = FALSE
INVARIANTS AllLaws EmitInv
CONSTRAINT Bound
CHECK_DEADLOCK FALSE
