------------------------------ MODULE Outcome ------------------------------
(***************************************************************************)
(* The three-valued result domain of rrtk (`Output<T, E>'):                *)
(*    Err(e)      an error with identity e (two identities are enough to   *)
(*                detect "wrong error" and "stale error")                  *)
(*    Absent      Ok(None)                                                 *)
(*    Some(t, v)  Ok(Some(Datum { time: t, value: v }))                    *)
(* Options are sequences of length 0 or 1 so that TLC never has to compare *)
(* values of different shapes.                                             *)
(***************************************************************************)
EXTENDS Integers, Sequences

Absent      == [c |-> "none"]
Err(e)      == [c |-> "err", e |-> e]
Some(t, v)  == [c |-> "some", t |-> t, v |-> v]
IsErr(o)    == o.c = "err"
IsAbsent(o) == o.c = "none"
IsSome(o)   == o.c = "some"

Errors      == {1, 2}
ErrOutcomes == {Err(e) : e \in Errors}

Nothing     == <<>>
Just(x)     == <<x>>
IsNothing(o) == o = <<>>
IsJust(o)   == o # <<>>
The(o)      == o[1]

RetOk       == [c |-> "ok"]
RetErr(e)   == [c |-> "err", e |-> e]
RetOf(o)    == IF IsErr(o) THEN RetErr(o.e) ELSE RetOk
Panic       == [c |-> "panic"]

MaxI(a, b) == IF a >= b THEN a ELSE b
MinI(a, b) == IF a <= b THEN a ELSE b
=============================================================================
