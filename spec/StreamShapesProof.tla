-------------------------- MODULE StreamShapesProof --------------------------
(***************************************************************************)
(* Unbounded proofs (TLAPS) about the value-free stream machines of        *)
(* StreamShapes, for histories of ANY length (TLC explores them to length  *)
(* 4..5 and by simulation to 64; the recorded traces to 64 events):        *)
(*   ShapeInv      the output category is a function of the number of      *)
(*                 present samples since the last reset: present exactly   *)
(*                 when that number has reached the kind's threshold; a    *)
(*                 cached error always comes with a zero count (C05)       *)
(*   NoStaleError  after an event that is not an error the stream never    *)
(*                 shows an error; after an error it shows that error      *)
(*                 (the to-state converters: absent) (C05)                 *)
(*   ResetForgets  a reset event leaves a state that does not depend on    *)
(*                 the state before it (C04, C10, C11, C12: the "fresh     *)
(*                 twin" laws compare with a fresh stream after a reset)   *)
(***************************************************************************)
EXTENDS StreamShapes, TLAPS

CONSTANT Kind
Plain == {"PID", "Integral", "Derivative", "CmdPID", "EWMA", "EWMAQ", "MA", "MAQ", "AccToState", "VelToState", "PosToState", "F2Q", "Q2F"}
ASSUME KindOK == Kind \in Plain

ErrId == {1, 2}
CmdKinds == {0, 1, 2}
Events == [c : {"some", "none"}, e : {0}] \cup [c : {"err"}, e : ErrId] \cup
          (IF Kind = "CmdPID" THEN [c : {"set"}, e : {0}, diff : BOOLEAN, k : CmdKinds] ELSE {})
Shapes == [cat : {"none", "some", "err"}, e : ErrId \cup {0}, cnt : 0..3, k : CmdKinds]

VARIABLE s
Init == \E k \in CmdKinds : s = InitShape(Kind, k)
Next == \E ev \in Events : s' = ShapeStep(Kind, s, ev)
Spec == Init /\ [][Next]_s

Counting == {"PID", "Integral", "Derivative", "CmdPID", "AccToState", "VelToState", "PosToState"}
ShapeInv ==
  /\ s \in Shapes
  /\ (Kind \in Counting => (s.cat = "some" <=> s.cnt >= Needed(Kind, s.k)))
  /\ (Kind \in {"EWMA", "EWMAQ", "MA", "MAQ", "F2Q", "Q2F"} => (s.cat = "some" <=> s.cnt >= 1))
  /\ (s.cat = "err" => (s.cnt = 0 /\ s.e \in ErrId))
  /\ (Kind \in {"AccToState", "VelToState", "PosToState"} => s.cat # "err")

(* the closed form of one step, case by case (only the definition of ShapeStep is needed) *)
LEMMA StepForm ==
  ASSUME NEW t, NEW ev
  PROVE  /\ (Kind \in {"PID", "Integral", "Derivative", "CmdPID", "AccToState", "VelToState", "PosToState"} /\ ev.c = "some")
              => ShapeStep(Kind, t, ev) = Shape(CatOf(Kind, Cap3(t.cnt + 1), t.k), 0, Cap3(t.cnt + 1), t.k)
         /\ (Kind \in {"PID", "Integral", "Derivative", "CmdPID", "F2Q", "Q2F"} /\ ev.c = "none") => ShapeStep(Kind, t, ev) = Shape("none", 0, 0, t.k)
         /\ (Kind \in {"PID", "Integral", "Derivative", "CmdPID", "EWMA", "EWMAQ", "MA", "MAQ", "F2Q", "Q2F"} /\ ev.c = "err")
              => ShapeStep(Kind, t, ev) = Shape("err", ev.e, 0, t.k)
         /\ (Kind = "CmdPID" /\ ev.c = "set") => ShapeStep(Kind, t, ev) = IF ev.diff THEN Shape("none", 0, 0, ev.k) ELSE t
         /\ (Kind \in {"EWMA", "EWMAQ", "MA", "MAQ"} /\ ev.c = "some") => ShapeStep(Kind, t, ev) = Shape("some", 0, Cap3(t.cnt + 1), t.k)
         /\ (Kind \in {"EWMA", "EWMAQ", "MA", "MAQ"} /\ ev.c = "none")
              => ShapeStep(Kind, t, ev) = IF t.cat = "err" THEN Shape("none", 0, 0, t.k) ELSE t
         /\ (Kind \in {"AccToState", "VelToState", "PosToState"} /\ ev.c = "none") => ShapeStep(Kind, t, ev) = t
         /\ (Kind \in {"AccToState", "VelToState", "PosToState"} /\ ev.c = "err") => ShapeStep(Kind, t, ev) = Shape("none", 0, 0, t.k)
         /\ (Kind \in {"F2Q", "Q2F"} /\ ev.c = "some") => ShapeStep(Kind, t, ev) = Shape("some", 0, 1, t.k)
  BY DEF ShapeStep

LEMMA StepKeeps ==
  ASSUME NEW t \in Shapes, NEW ev \in Events,
         Kind \in Counting => (t.cat = "some" <=> t.cnt >= Needed(Kind, t.k)),
         Kind \in {"EWMA", "EWMAQ", "MA", "MAQ", "F2Q", "Q2F"} => (t.cat = "some" <=> t.cnt >= 1),
         t.cat = "err" => (t.cnt = 0 /\ t.e \in ErrId),
         Kind \in {"AccToState", "VelToState", "PosToState"} => t.cat # "err"
  PROVE  LET u == ShapeStep(Kind, t, ev)
         IN  /\ u \in Shapes
             /\ (Kind \in Counting => (u.cat = "some" <=> u.cnt >= Needed(Kind, u.k)))
             /\ (Kind \in {"EWMA", "EWMAQ", "MA", "MAQ", "F2Q", "Q2F"} => (u.cat = "some" <=> u.cnt >= 1))
             /\ (u.cat = "err" => (u.cnt = 0 /\ u.e \in ErrId))
             /\ (Kind \in {"AccToState", "VelToState", "PosToState"} => u.cat # "err")
             (* NoStaleError *)
             /\ (ev.c \in {"some", "none"} => u.cat # "err")
             /\ (ev.c = "err" /\ Kind \notin {"AccToState", "VelToState", "PosToState"} => (u.cat = "err" /\ u.e = ev.e))
             /\ (ev.c = "err" /\ Kind \in {"AccToState", "VelToState", "PosToState"} => u.cat = "none")
  <1> DEFINE u == ShapeStep(Kind, t, ev)
  <1> USE KindOK DEF Plain, Counting
  <1>0. ev.c \in {"some", "none", "err", "set"} /\ (ev.c = "set" => Kind = "CmdPID" /\ ev.diff \in BOOLEAN /\ ev.k \in CmdKinds) /\ (ev.c = "err" => ev.e \in ErrId)
    BY DEF Events, ErrId, CmdKinds
  <1>1. CASE Kind \in {"PID", "Integral", "Derivative", "CmdPID"} /\ ev.c = "some"
    <2>1. u = Shape(CatOf(Kind, Cap3(t.cnt + 1), t.k), 0, Cap3(t.cnt + 1), t.k)
      BY <1>1, StepForm
    <2> QED BY <1>1, <2>1 DEF Shapes, ErrId, CmdKinds, Shape, CatOf, Needed, Cap3
  <1>2. CASE Kind \in {"AccToState", "VelToState", "PosToState"} /\ ev.c = "some"
    <2>1. u = Shape(CatOf(Kind, Cap3(t.cnt + 1), t.k), 0, Cap3(t.cnt + 1), t.k)
      BY <1>2, StepForm
    <2> QED BY <1>2, <2>1 DEF Shapes, ErrId, CmdKinds, Shape, CatOf, Needed, Cap3
  <1>3. CASE Kind \in {"PID", "Integral", "Derivative", "CmdPID", "F2Q", "Q2F"} /\ ev.c = "none"
    <2>1. u = Shape("none", 0, 0, t.k)
      BY <1>3, StepForm
    <2> QED BY <1>3, <2>1 DEF Shapes, ErrId, CmdKinds, Shape, Needed
  <1>4. CASE Kind \in {"PID", "Integral", "Derivative", "CmdPID", "EWMA", "EWMAQ", "MA", "MAQ", "F2Q", "Q2F"} /\ ev.c = "err"
    <2>1. u = Shape("err", ev.e, 0, t.k)
      BY <1>4, StepForm
    <2> QED BY <1>4, <1>0, <2>1 DEF Shapes, ErrId, CmdKinds, Shape, Needed
  <1>5. CASE Kind = "CmdPID" /\ ev.c = "set"
    <2>1. u = IF ev.diff THEN Shape("none", 0, 0, ev.k) ELSE t
      BY <1>5, StepForm
    <2> QED BY <1>5, <1>0, <2>1 DEF Shapes, ErrId, CmdKinds, Shape, Needed
  <1>6. CASE Kind \in {"EWMA", "EWMAQ", "MA", "MAQ"} /\ ev.c = "some"
    <2>1. u = Shape("some", 0, Cap3(t.cnt + 1), t.k)
      BY <1>6, StepForm
    <2> QED BY <1>6, <2>1 DEF Shapes, ErrId, CmdKinds, Shape, Cap3
  <1>7. CASE Kind \in {"EWMA", "EWMAQ", "MA", "MAQ"} /\ ev.c = "none"
    <2>1. u = IF t.cat = "err" THEN Shape("none", 0, 0, t.k) ELSE t
      BY <1>7, StepForm
    <2> QED BY <1>7, <2>1 DEF Shapes, ErrId, CmdKinds, Shape
  <1>8. CASE Kind \in {"AccToState", "VelToState", "PosToState"} /\ ev.c = "none"
    <2>1. u = t
      BY <1>8, StepForm
    <2> QED BY <1>8, <2>1 DEF Shapes
  <1>9. CASE Kind \in {"AccToState", "VelToState", "PosToState"} /\ ev.c = "err"
    <2>1. u = Shape("none", 0, 0, t.k)
      BY <1>9, StepForm
    <2> QED BY <1>9, <2>1 DEF Shapes, ErrId, CmdKinds, Shape, Needed
  <1>10. CASE Kind \in {"F2Q", "Q2F"} /\ ev.c = "some"
    <2>1. u = Shape("some", 0, 1, t.k)
      BY <1>10, StepForm
    <2> QED BY <1>10, <2>1 DEF Shapes, ErrId, CmdKinds, Shape
  <1> QED BY <1>0, <1>1, <1>2, <1>3, <1>4, <1>5, <1>6, <1>7, <1>8, <1>9, <1>10

(* a reset event forgets everything before it: the state after it is the same from any two states (with the same command kind) *)
LEMMA ResetForgets ==
  ASSUME NEW t1 \in Shapes, NEW t2 \in Shapes, NEW ev \in Events, t1.k = t2.k,
         ShapeIsReset(Kind, ev), Kind # "CmdPID" \/ ev.c # "set" \/ ev.diff
  PROVE  ShapeStep(Kind, t1, ev) = ShapeStep(Kind, t2, ev)
  <1> USE KindOK DEF Plain
  <1>0. ev.c \in {"some", "none", "err", "set"} /\ (ev.c = "set" => Kind = "CmdPID")
    BY DEF Events
  <1>1. CASE Kind \in {"PID", "Integral", "Derivative", "CmdPID"}
    <2>1. ev.c \in {"none", "err"} \/ (Kind = "CmdPID" /\ ev.c = "set" /\ ev.diff)
      BY <1>0, <1>1 DEF ShapeIsReset
    <2> QED BY <1>1, <2>1, StepForm
  <1>2. CASE Kind \in {"EWMA", "EWMAQ", "MA", "MAQ", "AccToState", "VelToState", "PosToState"}
    <2>1. ev.c = "err"
      BY <1>2 DEF ShapeIsReset
    <2> QED BY <1>2, <2>1, StepForm
  <1>3. CASE Kind \in {"F2Q", "Q2F"}
    BY <1>0, <1>3, StepForm
  <1> QED BY <1>1, <1>2, <1>3

THEOREM Safety == Spec => []ShapeInv
  <1>1. Init => ShapeInv
    BY KindOK DEF Init, ShapeInv, InitShape, Shape, Shapes, Plain, Counting, Needed, CmdKinds, ErrId
  <1>2. ShapeInv /\ [Next]_s => ShapeInv'
    <2> SUFFICES ASSUME ShapeInv, [Next]_s PROVE ShapeInv'
      OBVIOUS
    <2>1. CASE UNCHANGED s
      BY <2>1 DEF ShapeInv
    <2>2. ASSUME NEW ev \in Events, s' = ShapeStep(Kind, s, ev) PROVE ShapeInv'
      BY <2>2, StepKeeps DEF ShapeInv
    <2> QED BY <2>1, <2>2 DEF Next
  <1> QED BY <1>1, <1>2, PTL DEF Spec
=============================================================================
