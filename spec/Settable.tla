------------------------------ MODULE Settable ------------------------------
(***************************************************************************)
(* rrtk's Settable bookkeeping (set / last request / follow / update),     *)
(* the history adapter GetterFromHistory with its five constructors,       *)
(* set_delta and set_time, the ConstantGetter and TimeGetterFromGetter.    *)
(*                                                                         *)
(* Family "follow":  a settable whose impl_set succeeds or fails as        *)
(*    scripted, following a getter whose outcome is scripted.              *)
(* Family "history": a getter built over a history that returns, as its    *)
(*    value, the time it was asked for (so the queried instant is          *)
(*    observable), absent for negative history times; a scripted clock.    *)
(* Family "const":   constant getter (get / set / follow) and time getter  *)
(*    built from a getter.                                                 *)
(* Clock values and offsets are small integers (ticks); the harness maps   *)
(* them affinely to i64 nanoseconds including values near the i64 limits.  *)
(***************************************************************************)
EXTENDS Integers, Sequences, FiniteSets, TLC, Json, Outcome

CONSTANTS Family, MaxLen, Emit

VARIABLES st, hist, n
vars == <<st, hist, n>>

SomeV(v) == [c |-> "some", v |-> v]
GetterOutcomes == {Err(1), Err(100), Absent, SomeV(3), SomeV(4)}      \* 100 = the FromNone error (what a NoneToError stream hands on)
SetErr == 7      \* the error a failing impl_set reports

-----------------------------------------------------------------------------
(* family "follow" *)
FollowInit == [lastReq |-> Nothing, following |-> FALSE, gout |-> Absent, nextOk |-> TRUE, attempts |-> <<>>]
(* set(v): impl_set is attempted; the request is stored only if it succeeded *)
DoSet(s, v) ==
  [s EXCEPT !.attempts = Append(s.attempts, [v |-> v, ok |-> s.nextOk]),
            !.lastReq = IF s.nextOk THEN Just(v) ELSE s.lastReq]
SetRet(s) == IF s.nextOk THEN RetOk ELSE RetErr(SetErr)
(* update(): forwards exactly the present values of the followed getter *)
UpdRet(s) ==
  IF ~s.following THEN RetOk
  ELSE IF IsErr(s.gout) THEN RetErr(s.gout.e)
  ELSE IF IsAbsent(s.gout) THEN RetOk
  ELSE SetRet(s)
DoUpd(s) == IF s.following /\ s.gout.c = "some" THEN DoSet(s, s.gout.v) ELSE s

FollowOps ==
  {[op |-> "set", v |-> v] : v \in {1, 2}} \cup {[op |-> "nextok", b |-> b] : b \in BOOLEAN} \cup
  {[op |-> "follow"], [op |-> "stop"], [op |-> "update"]} \cup {[op |-> "getter", o |-> o] : o \in GetterOutcomes}
FollowStep(o) ==
  CASE o.op = "set" -> <<DoSet(st, o.v), SetRet(st)>>
    [] o.op = "nextok" -> <<[st EXCEPT !.nextOk = o.b], RetOk>>
    [] o.op = "follow" -> <<[st EXCEPT !.following = TRUE], RetOk>>
    [] o.op = "stop" -> <<[st EXCEPT !.following = FALSE], RetOk>>
    [] o.op = "getter" -> <<[st EXCEPT !.gout = o.o], RetOk>>
    [] o.op = "update" -> <<DoUpd(st), UpdRet(st)>>
FollowObs(s) == [lastReq |-> s.lastReq, attempts |-> s.attempts]

-----------------------------------------------------------------------------
(* family "history": alive = an adapter exists; delta = its offset *)
HistInit == [alive |-> FALSE, delta |-> 0, now |-> 10, clockErr |-> FALSE]
HistValue(t) == IF t < 0 THEN Nothing ELSE Just(t)      \* the history: value = the time asked for, absent before time 0
ClockOut(s) == IF s.clockErr THEN Err(2) ELSE [c |-> "time", t |-> s.now]
HistGet(s) ==
  IF s.clockErr THEN Err(2)
  ELSE LET h == HistValue(s.now + s.delta)
       IN  IF IsNothing(h) THEN Absent ELSE Some(s.now, The(h))       \* restamped with now
HistOps ==
  {[op |-> "advance", d |-> d] : d \in {1, 5}} \cup {[op |-> "clockerr", b |-> b] : b \in BOOLEAN} \cup
  {[op |-> "new_no_delta"], [op |-> "new_start_at_zero"], [op |-> "new_custom_start", x |-> 7], [op |-> "new_custom_delta", x |-> -13],
   [op |-> "new_custom_delta", x |-> 3], [op |-> "set_delta", x |-> 4], [op |-> "set_delta", x |-> -40], [op |-> "set_time", x |-> 2],
   [op |-> "set_time", x |-> 25], [op |-> "get"]}
HistStep(o) ==
  CASE o.op = "advance" -> <<[st EXCEPT !.now = @ + o.d], RetOk>>
    [] o.op = "clockerr" -> <<[st EXCEPT !.clockErr = o.b], RetOk>>
    [] o.op = "new_no_delta" -> <<[st EXCEPT !.alive = TRUE, !.delta = 0], RetOk>>
    [] o.op = "new_custom_delta" -> <<[st EXCEPT !.alive = TRUE, !.delta = o.x], RetOk>>
    [] o.op = "new_start_at_zero" ->        \* now maps to history time 0; fails (no adapter) when the clock fails
         IF st.clockErr THEN <<[st EXCEPT !.alive = FALSE], RetErr(2)>> ELSE <<[st EXCEPT !.alive = TRUE, !.delta = -st.now], RetOk>>
    [] o.op = "new_custom_start" ->         \* now maps to history time x
         IF st.clockErr THEN <<[st EXCEPT !.alive = FALSE], RetErr(2)>> ELSE <<[st EXCEPT !.alive = TRUE, !.delta = o.x - st.now], RetOk>>
    [] o.op = "set_delta" -> <<IF st.alive THEN [st EXCEPT !.delta = o.x] ELSE st, RetOk>>
    [] o.op = "set_time" ->                 \* define now as history time x; unchanged when the clock fails
         IF ~st.alive THEN <<st, RetOk>>
         ELSE IF st.clockErr THEN <<st, RetErr(2)>> ELSE <<[st EXCEPT !.delta = o.x - st.now], RetOk>>
    [] o.op = "get" -> <<st, RetOk>>
HistObs(s) == [alive |-> s.alive, get |-> IF s.alive THEN HistGet(s) ELSE Absent, now |-> s.now, clockErr |-> s.clockErr]

-----------------------------------------------------------------------------
(* family "const": constant getter and time getter from a getter *)
ConstInit == [value |-> 1, lastReq |-> Nothing, following |-> FALSE, gout |-> Absent, now |-> 10, clockErr |-> FALSE, gt |-> 10]
ConstOps ==
  {[op |-> "set", v |-> v] : v \in {5, 6}} \cup {[op |-> "follow"], [op |-> "stop"], [op |-> "update"]} \cup
  {[op |-> "getter", o |-> o, t |-> t] : o \in GetterOutcomes, t \in {8, 31}} \cup
  {[op |-> "advance", d |-> 3]} \cup {[op |-> "clockerr", b |-> b] : b \in BOOLEAN}
ConstStep(o) ==
  CASE o.op = "set" -> <<[st EXCEPT !.value = o.v, !.lastReq = Just(o.v)], RetOk>>
    [] o.op = "follow" -> <<[st EXCEPT !.following = TRUE], RetOk>>
    [] o.op = "stop" -> <<[st EXCEPT !.following = FALSE], RetOk>>
    [] o.op = "getter" -> <<[st EXCEPT !.gout = o.o, !.gt = o.t], RetOk>>
    [] o.op = "advance" -> <<[st EXCEPT !.now = @ + o.d], RetOk>>
    [] o.op = "clockerr" -> <<[st EXCEPT !.clockErr = o.b], RetOk>>
    [] o.op = "update" ->
         IF ~st.following THEN <<st, RetOk>>
         ELSE IF IsErr(st.gout) THEN <<st, RetErr(st.gout.e)>>
         ELSE IF IsAbsent(st.gout) THEN <<st, RetOk>>
         ELSE <<[st EXCEPT !.value = st.gout.v, !.lastReq = Just(st.gout.v)], RetOk>>
ConstObs(s) ==
  [constGet |-> IF s.clockErr THEN Err(2) ELSE Some(s.now, s.value),        \* the latest value at the clock's time
   lastReq |-> s.lastReq,
   timeFromGetter |-> IF IsErr(s.gout) THEN s.gout ELSE IF IsAbsent(s.gout) THEN Err(100) ELSE [c |-> "time", t |-> s.gt]]   \* absent -> FromNone

-----------------------------------------------------------------------------
Ops == CASE Family = "follow" -> FollowOps [] Family = "history" -> HistOps [] Family = "const" -> ConstOps
StepOf(o) == CASE Family = "follow" -> FollowStep(o) [] Family = "history" -> HistStep(o) [] Family = "const" -> ConstStep(o)
ObsOf(s) == CASE Family = "follow" -> FollowObs(s) [] Family = "history" -> HistObs(s) [] Family = "const" -> ConstObs(s)

Init == /\ st = (CASE Family = "follow" -> FollowInit [] Family = "history" -> HistInit [] Family = "const" -> ConstInit)
        /\ hist = <<>>
        /\ n = 0
Next == /\ n < MaxLen
        /\ n' = n + 1
        /\ \E o \in Ops : LET r == StepOf(o)
                          IN  /\ st' = r[1]
                              /\ hist' = IF Emit THEN Append(hist, [a |-> o, ret |-> r[2], obs |-> ObsOf(r[1])]) ELSE hist
Spec == Init /\ [][Next]_vars

(* Laws *)
RECURSIVE LastOk(_, _)
LastOk(a, i) == IF i = 0 THEN Nothing ELSE IF a[i].ok THEN Just(a[i].v) ELSE LastOk(a, i - 1)
FollowLaws ==
  (Family = "follow") =>
     /\ st.lastReq = LastOk(st.attempts, Len(st.attempts))                       \* the argument of the most recent successful set
FollowActionLaw ==
  [][(Family = "follow") =>
        \* an update forwards something only while following and only the getter's present value
        /\ ((st'.attempts # st.attempts /\ st'.gout = st.gout /\ st'.following = st.following /\ st'.nextOk = st.nextOk /\ hist' # hist
             /\ hist'[Len(hist')].a.op = "update")
              => (st.following /\ st.gout.c = "some" /\ st'.attempts = Append(st.attempts, [v |-> st.gout.v, ok |-> st.nextOk])))]_vars
HistLaws ==
  (Family = "history" /\ st.alive /\ ~st.clockErr) =>
     LET g == HistGet(st)
     IN  IsSome(g) => (g.t = st.now /\ g.v = st.now + st.delta)
(* each constructor / setter fixes the offset so that the chosen instant maps to the chosen history time *)
HistActionLaw ==
  [][(Family = "history" /\ hist' # hist) =>
        LET o == hist'[Len(hist')].a
        IN  /\ (o.op = "new_start_at_zero" /\ ~st.clockErr => st'.now + st'.delta = 0)
            /\ (o.op \in {"new_custom_start", "set_time"} /\ ~st.clockErr /\ st'.alive /\ (o.op = "new_custom_start" \/ st.alive) => st'.now + st'.delta = o.x)
            /\ (o.op = "advance" => st'.delta = st.delta)]_vars
Laws == FollowLaws /\ HistLaws

EmitInv == (Emit /\ n = MaxLen) => PrintT(<<"B", ToJson([family |-> Family, steps |-> hist])>>)
=============================================================================
