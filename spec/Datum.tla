------------------------------- MODULE Datum -------------------------------
(***************************************************************************)
(* Timestamp algebra of rrtk's Datum<T>: every operator form of            *)
(* src/datum.rs (binary with another datum, binary with a bare scalar,     *)
(* the assign forms, negation / not, the State and Command special cases   *)
(* with Datum<f32> / f32), the replace-if-older helpers and latest().      *)
(*                                                                         *)
(* A register holds a datum [t, w] where w counts the operations applied   *)
(* (the value itself is computed by the harness with plain operators);     *)
(* each step applies one operator form with an operand stamped t2.         *)
(* Rule: combining with a datum keeps the newer of the two timestamps,     *)
(* combining with a bare scalar keeps the timestamp.                       *)
(***************************************************************************)
EXTENDS Integers, Sequences, FiniteSets, TLC, Json, Outcome

CONSTANTS MaxLen, Emit
Ranks == 1..5
Payloads == {"f32", "quantity", "state", "command", "bool"}

(* operator forms: <<name, operand kind>>; operand kind: "datum" (same payload), "scalar" (bare value of the payload type), *)
(* "datumf32" / "f32" (State and Command special cases), "none" (unary) *)
Arith4 == {"add", "sub", "mul", "div"}
FormsOf(p) ==
  CASE p \in {"f32", "quantity"} ->
         {<<o, k, a>> : o \in Arith4, k \in {"datum", "scalar"}, a \in BOOLEAN} \cup {<<"neg", "none", FALSE>>}
    [] p \in {"state", "command"} ->
         {<<o, k, a>> : o \in {"add", "sub"}, k \in {"datum", "scalar"}, a \in BOOLEAN} \cup
         {<<o, k, a>> : o \in {"mul", "div"}, k \in {"datumf32", "f32"}, a \in BOOLEAN} \cup {<<"neg", "none", FALSE>>}
    [] p = "bool" -> {<<"not", "none", FALSE>>}

VARIABLES payload, reg, hist, n
vars == <<payload, reg, hist, n>>

TakesDatum(k) == k \in {"datum", "datumf32"}
TimeAfter(t, k, t2) == IF TakesDatum(k) THEN MaxI(t, t2) ELSE t

Init == /\ payload \in Payloads
        /\ reg \in {[t |-> t] : t \in Ranks}
        /\ hist = <<[op |-> "init", t |-> reg.t]>>
        /\ n = 0

Apply(f, t2) ==
  /\ reg' = [t |-> TimeAfter(reg.t, f[2], t2)]
  /\ hist' = Append(hist, [op |-> f[1], operand |-> f[2], assign |-> f[3], t2 |-> t2, t |-> reg'.t])

(* replace_if_older_than / replace_if_none_or_older_than(_option) / latest as steps on the register *)
Replace(kind, t2) ==       \* kind: "datum" | "option" | "option_none"
  LET rep == kind # "option_none" /\ t2 > reg.t
  IN  /\ reg' = [t |-> IF rep THEN t2 ELSE reg.t]
      /\ hist' = Append(hist, [op |-> "replace", operand |-> kind, assign |-> FALSE, t2 |-> t2, t |-> reg'.t, replaced |-> rep])
LatestStep(t2, regFirst) ==
  LET pickReg == IF regFirst THEN reg.t >= t2 ELSE ~(t2 >= reg.t)     \* latest(a, b) returns a on ties
  IN  /\ reg' = [t |-> IF pickReg THEN reg.t ELSE t2]
      /\ hist' = Append(hist, [op |-> "latest", operand |-> IF regFirst THEN "first" ELSE "second", assign |-> FALSE, t2 |-> t2,
                               t |-> reg'.t, picked |-> IF pickReg THEN "reg" ELSE "other"])

Next ==
  /\ n < MaxLen
  /\ n' = n + 1
  /\ UNCHANGED payload
  /\ \/ \E f \in FormsOf(payload), t2 \in Ranks : Apply(f, IF TakesDatum(f[2]) THEN t2 ELSE 0) /\ (TakesDatum(f[2]) \/ t2 = 1)
     \/ \E k \in {"datum", "option", "option_none"}, t2 \in Ranks : Replace(k, t2) /\ (k # "option_none" \/ t2 = 1)
     \/ \E t2 \in Ranks, b \in BOOLEAN : LatestStep(t2, b)
Spec == Init /\ [][Next]_vars

(* C03 laws on every step *)
StepLaw ==
  [][LET h == hist'[Len(hist')]
     IN  /\ h.op \notin {"replace", "latest"} =>
              (IF TakesDatum(h.operand) THEN (h.t \in {reg.t, h.t2} /\ h.t >= reg.t /\ h.t >= h.t2) ELSE h.t = reg.t)
         /\ h.op = "replace" =>
              /\ h.replaced <=> (h.operand # "option_none" /\ h.t2 > reg.t)
              /\ h.t = IF h.replaced THEN h.t2 ELSE reg.t
         /\ h.op = "latest" => (h.t \in {reg.t, h.t2} /\ h.t >= reg.t /\ h.t >= h.t2)]_vars

EmitInv == (Emit /\ n = MaxLen) => PrintT(<<"B", ToJson([payload |-> payload, steps |-> hist])>>)
=============================================================================
