------------------------- MODULE TerminalLinksProof -------------------------
(***************************************************************************)
(* Unbounded proof (TLAPS) that the link algebra of TerminalLinks keeps    *)
(* the links a symmetric partial matching for ANY number of terminals and  *)
(* any sequence of connect / disconnect operations (C09: a terminal has at *)
(* most one partner, links are mutual, connecting relinks both sides, the  *)
(* former partners are left unlinked).  TLC checks the same invariant only *)
(* for NT <= 6 terminals.                                                  *)
(***************************************************************************)
EXTENDS TerminalLinks, TLAPS

CONSTANT N
ASSUME NNat == N \in Nat
T == 1..N
LinkFn == [T -> T \cup {0}]

VARIABLE l
Init == l = [x \in T |-> 0]
Connect(i, j) == i # j /\ l' = ConnectL(l, i, j)
Disconnect(i) == l' = Unlink(l, i)
Next == \E i \in T : Disconnect(i) \/ \E j \in T : Connect(i, j)
Spec == Init /\ [][Next]_l

Inv == l \in LinkFn /\ IsMatching(l)

LEMMA UnlinkKeeps ==
  ASSUME NEW f \in LinkFn, IsMatching(f), NEW i \in T
  PROVE  /\ Unlink(f, i) \in LinkFn
         /\ IsMatching(Unlink(f, i))
         /\ Unlink(f, i)[i] = 0
         /\ \A x \in T : Unlink(f, i)[x] # 0 => Unlink(f, i)[x] = f[x]          \* only removes links
         /\ \A x \in T : (f[x] = 0) => Unlink(f, i)[x] = 0
  BY NNat DEF Unlink, IsMatching, LinkFn, T

LEMMA ConnectKeeps ==
  ASSUME NEW f \in LinkFn, IsMatching(f), NEW i \in T, NEW j \in T, i # j
  PROVE  /\ ConnectL(f, i, j) \in LinkFn
         /\ IsMatching(ConnectL(f, i, j))
         /\ ConnectL(f, i, j)[i] = j /\ ConnectL(f, i, j)[j] = i                \* the two terminals are linked to each other
         /\ \A x \in T : (x # i /\ x # j /\ (f[x] = i \/ f[x] = j)) => ConnectL(f, i, j)[x] = 0    \* former partners end up unlinked
         /\ \A x \in T : (x # i /\ x # j /\ f[x] # i /\ f[x] # j) => ConnectL(f, i, j)[x] = f[x]   \* everything else is untouched
  <1> DEFINE g == Unlink(f, i)
  <1> DEFINE h == Unlink(g, j)
  <1>1. g \in LinkFn /\ IsMatching(g) /\ g[i] = 0 /\ (\A x \in T : g[x] # 0 => g[x] = f[x]) /\ (\A x \in T : (f[x] = 0) => g[x] = 0)
    BY UnlinkKeeps
  <1>2. h \in LinkFn /\ IsMatching(h) /\ h[j] = 0 /\ (\A x \in T : h[x] # 0 => h[x] = g[x]) /\ (\A x \in T : (g[x] = 0) => h[x] = 0)
    BY <1>1, UnlinkKeeps
  <1>3. h[i] = 0
    BY <1>1, <1>2
  <1>4. \A x \in T : h[x] # i /\ h[x] # j
    BY <1>2, <1>3, NNat DEF IsMatching, LinkFn, T
  <1>5. ConnectL(f, i, j) = [h EXCEPT ![i] = j, ![j] = i]
    BY DEF ConnectL
  <1>6. ConnectL(f, i, j) \in LinkFn
    BY <1>2, <1>5 DEF LinkFn
  <1>7. IsMatching(ConnectL(f, i, j))
    BY <1>2, <1>3, <1>4, <1>5, NNat DEF IsMatching, LinkFn, T
  <1>8. ConnectL(f, i, j)[i] = j /\ ConnectL(f, i, j)[j] = i
    BY <1>2, <1>5 DEF LinkFn
  <1>9. \A x \in T : (x # i /\ x # j /\ (f[x] = i \/ f[x] = j)) => ConnectL(f, i, j)[x] = 0
    BY <1>1, <1>2, <1>5, NNat DEF Unlink, IsMatching, LinkFn, T
  <1>10. \A x \in T : (x # i /\ x # j /\ f[x] # i /\ f[x] # j) => ConnectL(f, i, j)[x] = f[x]
    BY <1>1, <1>2, <1>5, NNat DEF Unlink, IsMatching, LinkFn, T
  <1> QED BY <1>6, <1>7, <1>8, <1>9, <1>10

THEOREM Safety == Spec => []Inv
  <1>1. Init => Inv
    BY NNat DEF Init, Inv, LinkFn, IsMatching, T
  <1>2. Inv /\ [Next]_l => Inv'
    <2> SUFFICES ASSUME Inv, [Next]_l PROVE Inv'
      OBVIOUS
    <2>1. CASE UNCHANGED l
      BY <2>1 DEF Inv
    <2>2. ASSUME NEW i \in T, Disconnect(i) PROVE Inv'
      BY <2>2, UnlinkKeeps DEF Inv, Disconnect
    <2>3. ASSUME NEW i \in T, NEW j \in T, Connect(i, j) PROVE Inv'
      BY <2>3, ConnectKeeps DEF Inv, Connect
    <2> QED BY <2>1, <2>2, <2>3 DEF Next
  <1> QED BY <1>1, <1>2, PTL DEF Spec
=============================================================================
