---------------------------- MODULE TerminalLinks ----------------------------
(***************************************************************************)
(* Pure definitions shared by Devices.tla, ConnectBorrow.tla and           *)
(* DevicesTrace.tla: the link algebra of rrtk terminals (a link function   *)
(* l : terminal -> partner or 0) and the selection rule of the command     *)
(* read.                                                                   *)
(***************************************************************************)
EXTENDS Integers, Sequences

Unlink(l, i) == IF l[i] = 0 THEN l ELSE [l EXCEPT ![i] = 0, ![l[i]] = 0]
ConnectL(l, i, j) == [Unlink(Unlink(l, i), j) EXCEPT ![i] = j, ![j] = i]
IsMatching(l) == \A x \in DOMAIN l : l[x] # 0 => (l[x] # x /\ l[x] \in DOMAIN l /\ l[l[x]] = x)

(* options are sequences of length 0 or 1; a command / state datum has a field t *)
PartnerOpt(l, f, x) == IF l[x] = 0 THEN <<>> ELSE f[l[x]]
(* command read: own command, replaced by the partner's only when that is strictly newer (or there is no own command) *)
SelectCmd(a, b) == IF a = <<>> THEN b ELSE IF b = <<>> THEN a ELSE IF b[1].t > a[1].t THEN b ELSE a
=============================================================================
