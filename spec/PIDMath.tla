------------------------------ MODULE PIDMath ------------------------------
(***************************************************************************)
(* Pure definitions shared by Streams.tla and Wrappers.tla: the PID law,   *)
(* trapezoid addend, difference quotient, and the CommandPID machine       *)
(* (streams::control::CommandPID: impl_set, update, get).                  *)
(***************************************************************************)
EXTENDS Integers, Sequences, Rat, Outcome

Eval(g, e, i, d) == RAdd(RAdd(RMul(g.kp, e), RMul(g.ki, i)), RMul(g.kd, d))
TrapAdd(dt, a, b) == RHalf(RMul(RI(dt), RAdd(a, b)))       \* dt (a + b) / 2
Quot(a, b, dt)    == RDiv(RSub(b, a), RI(dt))              \* (b - a) / dt


(* CommandPID: impl_set, update, get *)
Comp(v3, k) == v3[k + 1]
CmdStep(p, s, ev, t) ==
  CASE ev.c = "set" ->
         LET c == [k |-> ev.k, v |-> ev.v]
         IN  IF c # s.cmd THEN [s EXCEPT !.cmd = c, !.lastReq = Just(c), !.u = [c |-> "empty"]]
                          ELSE [s EXCEPT !.lastReq = Just(c)]
    [] ev.c = "none" -> [s EXCEPT !.u = [c |-> "empty"]]
    [] ev.c = "err"  -> [s EXCEPT !.u = [c |-> "err", e |-> ev.e]]
    [] ev.c = "some" ->
         LET g == p.gains[s.cmd.k + 1]
             e == RSub(s.cmd.v, Comp(ev.v, s.cmd.k))
         IN  IF s.u.c # "l0"
             THEN [s EXCEPT !.u = [c |-> "l0", t |-> t, out |-> Eval(g, e, Zero, Zero), err |-> e,
                                   l1 |-> Nothing]]
             ELSE
               LET dt == t - s.u.t
                   drv == Quot(s.u.err, e, dt)
                   iadd == TrapAdd(dt, s.u.err, e)
               IN  IF IsNothing(s.u.l1)
                   THEN LET out == Eval(g, e, iadd, drv)
                        IN  [s EXCEPT !.u = [c |-> "l0", t |-> t, out |-> out, err |-> e,
                                 l1 |-> Just([outInt |-> TrapAdd(dt, s.u.out, out), errInt |-> iadd,
                                              oii |-> Nothing])]]
                   ELSE LET l1 == The(s.u.l1)
                            errInt == RAdd(l1.errInt, iadd)
                            out == Eval(g, e, errInt, drv)
                            outInt == RAdd(l1.outInt, TrapAdd(dt, s.u.out, out))
                            oadd == TrapAdd(dt, l1.outInt, outInt)
                            oii == IF IsNothing(l1.oii) THEN oadd ELSE RAdd(The(l1.oii), oadd)
                        IN  [s EXCEPT !.u = [c |-> "l0", t |-> t, out |-> out, err |-> e,
                                 l1 |-> Just([outInt |-> outInt, errInt |-> errInt, oii |-> Just(oii)])]]
CmdObs(s) ==
  CASE s.u.c = "err" -> Err(s.u.e)
    [] s.u.c = "empty" -> Absent
    [] s.u.c = "l0" ->
         IF s.cmd.k = 0 THEN Some(s.u.t, s.u.out)
         ELSE IF IsNothing(s.u.l1) THEN Absent
         ELSE IF s.cmd.k = 1 THEN Some(s.u.t, The(s.u.l1).outInt)
         ELSE IF IsNothing(The(s.u.l1).oii) THEN Absent
         ELSE Some(s.u.t, The(The(s.u.l1).oii))

=============================================================================
