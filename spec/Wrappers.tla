------------------------------ MODULE Wrappers ------------------------------
(***************************************************************************)
(* rrtk's device wrappers (devices::wrappers): the wrapper's terminal is   *)
(* connected to one external terminal on which the environment writes      *)
(* states and commands with strictly increasing timestamps.                *)
(*                                                                         *)
(* "actuator": ActuatorWrapper around a settable whose set / update        *)
(*             succeed or fail as scripted and which records what it gets. *)
(* "encoder":  GetterStateDeviceWrapper around a getter whose update and   *)
(*             get outcomes are scripted.                                  *)
(* "pid":      PIDWrapper around a recording motor; the embedded           *)
(*             controller is the CommandPID machine of PIDMath (the same   *)
(*             definition Streams.tla checks for C11); a stand-alone copy  *)
(*             of that machine is fed the times, states and commands the   *)
(*             terminal showed, and must produce the motor values.         *)
(***************************************************************************)
EXTENDS Integers, Sequences, FiniteSets, TLC, Json, Rat, Outcome, PIDMath

CONSTANTS Family, MaxLen, Emit

VARIABLES st, hist, n
vars == <<st, hist, n>>

V3(a, b, c) == <<RI(a), RI(b), RI(c)>>
Mod3(t) == t % 3
StateVal(t) == V3(2 * t - 3, 4 - t, Mod3(t) - 1)
CmdOf(t, k) == [k |-> k, v |-> RI(5 - 2 * t)]
SetErr == 7
UpdErr == 8

(* what the wrapper's terminal sees: the external terminal's data (the wrapper's own slots stay empty *)
(* for the actuator and PID wrappers); time = the state's when there is one, else the command's *)
Seen(s) == IF IsNothing(s.xst) /\ IsNothing(s.xcmd) THEN Nothing
           ELSE Just([t |-> IF IsJust(s.xst) THEN The(s.xst).t ELSE The(s.xcmd).t,
                      cmd |-> IF IsJust(s.xcmd) THEN Just([k |-> The(s.xcmd).k, v |-> The(s.xcmd).v]) ELSE Nothing,
                      st |-> IF IsJust(s.xst) THEN Just(The(s.xst).v) ELSE Nothing])

-----------------------------------------------------------------------------
(* actuator *)
ActInit == [now |-> 0, xst |-> Nothing, xcmd |-> Nothing, setOk |-> TRUE, updOk |-> TRUE, received |-> <<>>, updates |-> 0]
ActOps == {[op |-> "state"], [op |-> "cmd", k |-> 1], [op |-> "setok", b |-> FALSE], [op |-> "setok", b |-> TRUE],
           [op |-> "updok", b |-> FALSE], [op |-> "updok", b |-> TRUE], [op |-> "update"]}
WriteState(s) == [s EXCEPT !.now = @ + 1, !.xst = Just([t |-> s.now + 1, v |-> StateVal(s.now + 1)])]
WriteCmd(s, k) == [s EXCEPT !.now = @ + 1, !.xcmd = Just([t |-> s.now + 1, k |-> k, v |-> CmdOf(s.now + 1, k).v])]
ActStep(o) ==
  CASE o.op = "state" -> <<WriteState(st), RetOk>>
    [] o.op = "cmd" -> <<WriteCmd(st, o.k), RetOk>>
    [] o.op = "setok" -> <<[st EXCEPT !.setOk = o.b], RetOk>>
    [] o.op = "updok" -> <<[st EXCEPT !.updOk = o.b], RetOk>>
    [] o.op = "update" ->
         LET d == Seen(st)
             s1 == IF IsJust(d) THEN [st EXCEPT !.received = Append(@, [data |-> The(d), ok |-> st.setOk])] ELSE st
         IN  IF IsJust(d) /\ ~st.setOk THEN <<s1, RetErr(SetErr)>>                 \* the inner error is propagated; the inner object is not updated
             ELSE <<[s1 EXCEPT !.updates = @ + 1], IF st.updOk THEN RetOk ELSE RetErr(UpdErr)>>
ActObs(s) == [received |-> s.received, updates |-> s.updates]

-----------------------------------------------------------------------------
(* encoder *)
(* The inner getter SAMPLES at its own update: what the environment prepares (pending) becomes its output (gout) only when the   *)
(* wrapper updates it, so a wrapper that reads the getter before updating it publishes the previous cycle's reading.            *)
EncInit == [now |-> 0, own |-> Nothing, updOk |-> TRUE, gout |-> Absent, pending |-> Absent, updates |-> 0]
EncOps == {[op |-> "getter", o |-> "err"], [op |-> "getter", o |-> "none"], [op |-> "getter", o |-> "some"], [op |-> "getter", o |-> "stale"],
           [op |-> "updok", b |-> FALSE], [op |-> "updok", b |-> TRUE], [op |-> "update"]}
EncStep(o) ==
  CASE o.op = "getter" ->
         <<[st EXCEPT !.now = @ + 1,
                      !.pending = CASE o.o = "err" -> Err(1) [] o.o = "none" -> Absent [] o.o = "some" -> Some(st.now + 1, StateVal(st.now + 1))
                                    [] o.o = "stale" -> Some(0, StateVal(st.now + 1))], RetOk>>      \* a reading with an old timestamp is written all the same
    [] o.op = "updok" -> <<[st EXCEPT !.updOk = o.b], RetOk>>
    [] o.op = "update" ->
         IF ~st.updOk THEN <<st, RetErr(UpdErr)>>                                   \* the inner update's error is propagated first; nothing was sampled
         ELSE LET g == st.pending                                                   \* the inner update samples
                  s1 == [st EXCEPT !.gout = g, !.updates = @ + 1]
              IN  IF IsErr(g) THEN <<s1, RetErr(g.e)>>
                  ELSE IF IsAbsent(g) THEN <<s1, RetOk>>                            \* terminal untouched
                  ELSE <<[s1 EXCEPT !.own = Just([t |-> g.t, v |-> g.v])], RetOk>>
EncObs(s) == [own |-> s.own, updates |-> s.updates]

-----------------------------------------------------------------------------
(* pid *)
Gains == << [kp |-> RI(1), ki |-> RI(2), kd |-> RI(4)], [kp |-> RI(2), ki |-> RI(4), kd |-> RI(1)], [kp |-> RI(4), ki |-> RI(1), kd |-> RI(2)] >>
PidPar == [gains |-> Gains]
InitCmd == [k |-> 0, v |-> RI(2)]
InitState == V3(1, 0, 0)
PidInit == [now |-> 0, xst |-> Nothing, xcmd |-> Nothing, clock |-> 0, sval |-> InitState, cval |-> InitCmd,
            pid |-> [cmd |-> InitCmd, lastReq |-> Nothing, u |-> [c |-> "empty"]],
            twin |-> [cmd |-> InitCmd, lastReq |-> Nothing, u |-> [c |-> "empty"]],
            motor |-> <<>>, fresh |-> TRUE, poisoned |-> FALSE, start |-> 0]
PidOps == {[op |-> "state"], [op |-> "stale"], [op |-> "cmd", k |-> 0], [op |-> "cmd", k |-> 1], [op |-> "cmd", k |-> 2], [op |-> "both", k |-> 1], [op |-> "update"]}
(* CommandPID::update while following the command getter: set(command), then the input sample *)
PidUpdate(p, c, t, sv) ==
  LET p1 == CmdStep(PidPar, p, [c |-> "set", k |-> c.k, v |-> c.v], t)
  IN  CmdStep(PidPar, p1, [c |-> "some", v |-> sv], t)
PidStep(o) ==
  CASE o.op = "state" -> <<[WriteState(st) EXCEPT !.fresh = TRUE], RetOk>>
    (* a LATE reading: a new state value stamped with a time older than the latest write, so that the time the terminal shows steps back; *)
    (* the stand-alone controller is fed that time all the same (a negative interval is ordinary arithmetic, only a zero one is not)      *)
    [] o.op = "stale" -> <<[st EXCEPT !.now = @ + 1, !.xst = Just([t |-> st.now - 1, v |-> StateVal(st.now + 1)]), !.fresh = (st.now - 1 # st.clock)], RetOk>>
    [] o.op = "cmd" -> <<[WriteCmd(st, o.k) EXCEPT !.fresh = IsNothing(st.xst) \/ st.fresh], RetOk>>
    [] o.op = "both" ->
         LET s1 == WriteState(st)
         IN  <<[s1 EXCEPT !.xcmd = Just([t |-> s1.now, k |-> o.k, v |-> CmdOf(s1.now, o.k).v]), !.fresh = TRUE], RetOk>>
    [] o.op = "update" ->
         LET d == Seen(st)
         IN  IF IsNothing(d) THEN <<[st EXCEPT !.motor = IF CmdObs(st.pid).c = "some" THEN Append(@, CmdObs(st.pid).v) ELSE @], RetOk>>
             (* A round in which the terminal shows the SAME data time again (nothing new, or only a command while a state is *)
             (* present: the combined datum carries the state's time): the real controller divides by a zero interval and    *)
             (* its output is NaN / infinite from then on.  Exact rationals cannot follow it; the behaviour is marked         *)
             (* poisoned and from here on only the bit-for-bit comparison with the real stand-alone controller decides.      *)
             ELSE IF st.poisoned \/ ~st.fresh THEN <<[st EXCEPT !.poisoned = TRUE], RetOk>>
             ELSE LET dd == The(d)
                      sv == IF IsJust(dd.st) THEN The(dd.st) ELSE st.sval
                      cv == IF IsJust(dd.cmd) THEN The(dd.cmd) ELSE st.cval
                      p2 == PidUpdate(st.pid, cv, dd.t, sv)
                      (* the stand-alone controller fed the same time, state and command *)
                      t2 == PidUpdate(st.twin, cv, dd.t, sv)
                      out == CmdObs(p2)
                  IN  <<[st EXCEPT !.clock = dd.t, !.sval = sv, !.cval = cv, !.pid = p2, !.twin = t2, !.fresh = FALSE,
                                   !.motor = IF out.c = "some" THEN Append(@, out.v) ELSE @], RetOk>>
PidObs(s) == [motor |-> s.motor, out |-> CmdObs(s.pid), twin |-> CmdObs(s.twin), poisoned |-> s.poisoned, start |-> s.start]

-----------------------------------------------------------------------------
Ops == CASE Family = "actuator" -> ActOps [] Family = "encoder" -> EncOps [] Family = "pid" -> PidOps
StepOf(o) == CASE Family = "actuator" -> ActStep(o) [] Family = "encoder" -> EncStep(o) [] Family = "pid" -> PidStep(o)
ObsOf(s) == CASE Family = "actuator" -> ActObs(s) [] Family = "encoder" -> EncObs(s) [] Family = "pid" -> PidObs(s)

(* the PID family starts its environment clock at 0, at -1 (the first datum carries the wrapper's own initial time) or at -5 (the first data are OLDER than the initial time) *)
Init == /\ \E n0 \in (IF Family = "pid" THEN {0, -1, -5} ELSE {0}) :
              st = (CASE Family = "actuator" -> ActInit [] Family = "encoder" -> EncInit [] Family = "pid" -> [PidInit EXCEPT !.now = n0, !.start = n0])
        /\ hist = <<>>
        /\ n = 0
Next == /\ n < MaxLen
        /\ n' = n + 1
        /\ \E o \in Ops :
              /\ LET r == StepOf(o)
                 IN  /\ st' = r[1]
                     /\ hist' = IF Emit THEN Append(hist, [a |-> o, ret |-> r[2], obs |-> ObsOf(r[1]),
                                                           seen |-> IF Family = "encoder" THEN Nothing ELSE Seen(r[1])]) ELSE hist
Spec == Init /\ [][Next]_vars

(* Laws *)
ActLaw == (Family = "actuator") => (st.updates <= n /\ Len(st.received) <= n)
(* the inner settable received exactly the data the terminal showed at each update *)
ActActionLaw ==
  [][(Family = "actuator" /\ hist' # hist /\ hist'[Len(hist')].a.op = "update") =>
        /\ (IsNothing(Seen(st)) => st'.received = st.received)
        /\ (IsJust(Seen(st)) => st'.received = Append(st.received, [data |-> The(Seen(st)), ok |-> st.setOk]))
        /\ (st'.updates = st.updates + 1 <=> (IsNothing(Seen(st)) \/ st.setOk))]_vars
EncActionLaw ==
  [][(Family = "encoder" /\ hist' # hist /\ hist'[Len(hist')].a.op = "update") =>
        /\ (st.updOk /\ IsSome(st.pending) => st'.own = Just([t |-> st.pending.t, v |-> st.pending.v]))
        /\ (~(st.updOk /\ IsSome(st.pending)) => st'.own = st.own)]_vars
(* the wrapper's controller and the stand-alone controller always show the same output *)
PidLaw == (Family = "pid") => CmdObs(st.pid) = CmdObs(st.twin)
Laws == ActLaw /\ PidLaw

RECURSIVE AllSmallSeq(_)
AllSmallSeq(q) == \A i \in 1..Len(q) : Small(q[i])
Bound == (Family = "pid") => AllSmallSeq(st.motor)

EmitInv == (Emit /\ n = MaxLen) => PrintT(<<"B", ToJson([family |-> Family, steps |-> hist])>>)
=============================================================================
