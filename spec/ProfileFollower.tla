--------------------------- MODULE ProfileFollower ---------------------------
(***************************************************************************)
(* A small SYSTEM: a command PID that follows a motion profile.            *)
(*                                                                         *)
(*   MotionProfile --History--> GetterFromHistory --Getter<Command>-->     *)
(*        CommandPID (follow)  <--Getter<State>-- encoder samples          *)
(*                                                                         *)
(* This is how the crate's pieces are meant to be used together, and none  *)
(* of the listed properties speaks about the composition.  The model       *)
(* composes three specifications that are bound to the code separately:    *)
(* the reference trapezoid and phase automaton of MotionProfile.tla (C06,  *)
(* C07), the following rule of Settable.tla (C15: every update first sets  *)
(* what the followed getter returns) and the CommandPID machine of         *)
(* PIDMath.tla (C11).  At every update the controller is handed the        *)
(* profile's command for the current time - an acceleration command during *)
(* the two ramps, a velocity command while cruising, the end command after *)
(* completion - and restarts exactly when that command differs from the    *)
(* one in force.                                                           *)
(*                                                                         *)
(* Time is counted in HALF TICKS of the move (the profile's boundaries lie *)
(* on whole ticks).  A deviation of the real composition is reported as an *)
(* EXTRA-DEVIATION by the C11 check, never as a violation.                 *)
(***************************************************************************)
EXTENDS MotionProfile, PIDMath

CONSTANT MaxSteps

VARIABLES hh,      \* time of the last update, in half ticks (-1: none yet)
          ctl,     \* the controller (PIDMath's CommandPID machine)
          since,   \* samples seen since the command last changed
          trail    \* emitted history
fvars == <<case, hh, ctl, since, trail>>

FGains == << [kp |-> RI(1), ki |-> RI(2), kd |-> RI(4)], [kp |-> RI(2), ki |-> RI(4), kd |-> RI(1)], [kp |-> RI(4), ki |-> RI(1), kd |-> RI(2)] >>
FPar == [gains |-> FGains]
FInitCmd == [k |-> 0, v |-> RI(7)]                 \* what the controller was constructed with; replaced at the first update

MinI2(a, b) == IF a <= b THEN a ELSE b
PieceAt(mv, h) == IF h < 0 THEN 0 ELSE IF h < 2 * mv.t1 THEN 1 ELSE IF h < 2 * mv.t2 THEN 2 ELSE IF h < 2 * mv.t3 THEN 3 ELSE 4
(* the command the profile's history returns at half tick h >= 0 *)
CmdAt(mv, h) ==
  LET k == ModeOf(PieceAt(mv, h), EndKind(mv))
      r == RefAt(mv, MinI2(h, 2 * mv.t3))
  IN  [k |-> k, v |-> CASE k = 2 -> r.acc [] k = 1 -> r.vel [] k = 0 -> r.pos]
Mod3F(t) == t % 3
SampleAt(h) == <<RI(2 * h - 3), RI(4 - h), RI(Mod3F(h) - 1)>>       \* the encoder's state sample at half tick h

FInit == /\ Init                                      \* a move of MotionProfile.tla's exact family
         /\ ~case.panic
         /\ hh = -1
         /\ ctl = [cmd |-> FInitCmd, lastReq |-> Nothing, u |-> [c |-> "empty"]]
         /\ since = 0
         /\ trail = <<>>

Step(d) ==
  LET mv == case.mv
      h2 == IF hh < 0 THEN d - 1 ELSE hh + d             \* the first update may be at time 0
      c == CmdAt(mv, h2)
      c1 == CmdStep(FPar, ctl, [c |-> "set", k |-> c.k, v |-> c.v], h2)     \* update_following_data: set(what the getter returns)
      c2 == CmdStep(FPar, c1, [c |-> "some", v |-> SampleAt(h2)], h2)      \* then the input sample
      changed == c # ctl.cmd
  IN  /\ Len(trail) < MaxSteps
      /\ hh' = h2
      /\ ctl' = c2
      /\ since' = IF changed THEN 1 ELSE since + 1
      /\ trail' = IF Emit THEN Append(trail, [h |-> h2, piece |-> PieceAt(mv, h2), cmd |-> c, changed |-> changed, out |-> CmdObs(c2)]) ELSE trail
      /\ UNCHANGED case
FNext == \E d \in {1, 3} : Step(d)
FSpec == FInit /\ [][FNext]_fvars

(* the controller always pursues the profile's command for the time of its last update *)
Pursues == hh >= 0 => ctl.cmd = CmdAt(case.mv, hh)
(* and is silent for exactly as many samples after every change of command as that command's kind requires *)
Silence == hh >= 0 => (IsSome(CmdObs(ctl)) <=> since >= ctl.cmd.k + 1)
(* the command changes at most five times over a whole move: initial, cruise, end ramp, end command (and the constructor's) *)
FLaws == Pursues /\ Silence

FSmall == hh < 0 \/ ~IsSome(CmdObs(ctl)) \/ Small(CmdObs(ctl).v)
FEmit == (Emit /\ (Len(trail) = MaxSteps)) => PrintT(<<"B", ToJson([mv |-> case.mv, endkind |-> EndKind(case.mv), steps |-> trail])>>)
=============================================================================
