------------------------------- MODULE Rat -------------------------------
(***************************************************************************)
(* Exact rational arithmetic on TLC integers.  A rational is a normalised  *)
(* pair <<n, d>> with d > 0 and gcd(|n|, d) = 1; zero is <<0, 1>>.         *)
(* TLC integers are 32-bit, so models keep numerators and denominators     *)
(* small (the `Exact' predicate below is used as a state constraint).      *)
(***************************************************************************)
EXTENDS Integers

RECURSIVE GCD(_, _)
GCD(a, b) == IF b = 0 THEN a ELSE GCD(b, a % b)

Abs(x) == IF x < 0 THEN -x ELSE x

Norm(n, d) ==
  LET s == IF d < 0 THEN -1 ELSE 1
      g == GCD(Abs(n), Abs(d))
  IN  IF n = 0 THEN <<0, 1>> ELSE <<(s * n) \div g, (s * d) \div g>>

RI(n)      == <<n, 1>>
R(n, d)    == Norm(n, d)
Zero       == <<0, 1>>
One        == <<1, 1>>
Two        == <<2, 1>>
RAdd(a, b) == Norm(a[1] * b[2] + b[1] * a[2], a[2] * b[2])
RSub(a, b) == Norm(a[1] * b[2] - b[1] * a[2], a[2] * b[2])
RMul(a, b) == Norm(a[1] * b[1], a[2] * b[2])
RDiv(a, b) == Norm(a[1] * b[2], a[2] * b[1])      \* b # 0
RNeg(a)    == <<-a[1], a[2]>>
RHalf(a)   == Norm(a[1], 2 * a[2])
RLt(a, b)  == a[1] * b[2] < b[1] * a[2]
RLe(a, b)  == a[1] * b[2] <= b[1] * a[2]
RAbs(a)    == <<Abs(a[1]), a[2]>>
RMax(a, b) == IF RLe(a, b) THEN b ELSE a
RMin(a, b) == IF RLe(a, b) THEN a ELSE b
IsZero(a)  == a[1] = 0

RECURSIVE RPow(_, _)
RPow(b, n) == IF n = 0 THEN One ELSE RMul(b, RPow(b, n - 1))   \* 0^0 = 1 as in IEEE powf

RECURSIVE IsPow2(_)
IsPow2(d) == d = 1 \/ (d % 2 = 0 /\ IsPow2(d \div 2))

(* A value the f32 computation represents exactly in any operation order:  *)
(* dyadic, with a small numerator.                                         *)
Exact(a) == IsPow2(a[2]) /\ Abs(a[1]) < 4194304 /\ a[2] <= 4096
Small(a) == Abs(a[1]) < 4194304 /\ a[2] <= 4096
=============================================================================
