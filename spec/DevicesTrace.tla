---------------------------- MODULE DevicesTrace ----------------------------
(***************************************************************************)
(* Trace validation of terminals (C09) on arbitrary values: random         *)
(* sequences of up to 200 connect / disconnect / set-state / set-command   *)
(* operations on 6 real terminals, with arbitrary finite states, commands  *)
(* and i64 timestamps (logged as ranks of a random strictly monotone map   *)
(* and as ordered f32 keys).  After every operation the recorder logs what *)
(* every terminal reads.                                                   *)
(*                                                                         *)
(* The link function is NOT logged (it is private in the code): TLC infers *)
(* it from the operations with the link algebra of TerminalLinks (the same *)
(* operators Devices.tla and ConnectBorrow.tla use) and checks every read: *)
(* the state read is the mean of own and partner's states (each component  *)
(* lies between the two, within one float), stamped with the newer time,   *)
(* or whichever exists; the command read is the selected candidate,        *)
(* exactly; the combined read carries the state's time when there is a     *)
(* state; two linked terminals read the same state.                        *)
(***************************************************************************)
EXTENDS Integers, Sequences, TLC, Json, IOUtils, TerminalLinks

Rec == ndJsonDeserialize(IOEnv.TRACE)
NT == 6
Terms == 1..NT

VARIABLES l, link, ost, ocmd
vars == <<l, link, ost, ocmd>>

IsEvent(k) == l <= Len(Rec) /\ Rec[l].k = k /\ l' = l + 1
MinK(a, b) == IF a <= b THEN a ELSE b
MaxK(a, b) == IF a >= b THEN a ELSE b

(* what terminal x must read, given link function lk, own states s and own commands c *)
StateOk(lk, s, x, got) ==
  LET a == s[x]
      b == PartnerOpt(lk, s, x)
  IN  IF a = <<>> /\ b = <<>> THEN got = <<>>
      ELSE IF b = <<>> THEN got = a
      ELSE IF a = <<>> THEN got = b
      ELSE /\ got # <<>>
           /\ got[1].t = MaxK(a[1].t, b[1].t)
           /\ \A j \in 1..3 : /\ got[1].keys[j] >= MinK(a[1].keys[j], b[1].keys[j]) - 1
                              /\ got[1].keys[j] <= MaxK(a[1].keys[j], b[1].keys[j]) + 1
                              /\ (a[1].keys[j] = b[1].keys[j] => got[1].keys[j] = a[1].keys[j])      \* the mean of x and x is x, exactly (x + x never overflows here)
CmdOk(lk, c, x, got) == got = SelectCmd(c[x], PartnerOpt(lk, c, x))
DataOk(stRead, cmRead, got) ==
  IF stRead = <<>> /\ cmRead = <<>> THEN got = <<>>
  ELSE /\ got # <<>>
       /\ got[1].t = (IF stRead # <<>> THEN stRead[1].t ELSE cmRead[1].t)
       /\ got[1].hasState = (stRead # <<>>)
       /\ got[1].hasCmd = (cmRead # <<>>)

ObsOk(lk, s, c, obs) ==
  \A x \in Terms :
     /\ StateOk(lk, s, x, obs[x].st)
     /\ CmdOk(lk, c, x, obs[x].cmd)
     /\ DataOk(obs[x].st, obs[x].cmd, obs[x].data)
     /\ (lk[x] # 0 => obs[x].st = obs[lk[x]].st)            \* two connected terminals read the same state

Reset == /\ IsEvent("reset")
         /\ link' = [x \in Terms |-> 0]
         /\ ost' = [x \in Terms |-> <<>>]
         /\ ocmd' = [x \in Terms |-> <<>>]
Op ==
  /\ IsEvent("op")
  /\ LET r == Rec[l]
         lk2 == CASE r.op = "connect" -> ConnectL(link, r.i, r.j)
                  [] r.op = "disconnect" -> Unlink(link, r.i)
                  [] OTHER -> link
         s2 == IF r.op = "setstate" THEN [ost EXCEPT ![r.i] = <<[t |-> r.t, keys |-> r.keys]>>] ELSE ost
         c2 == IF r.op = "setcmd" THEN [ocmd EXCEPT ![r.i] = <<[t |-> r.t, kind |-> r.kind, key |-> r.key]>>] ELSE ocmd
     IN  /\ (r.op = "connect" => r.i # r.j)
         /\ IsMatching(lk2)
         /\ ObsOk(lk2, s2, c2, r.obs)
         /\ link' = lk2 /\ ost' = s2 /\ ocmd' = c2

TraceInit == l = 1 /\ link = [x \in Terms |-> 0] /\ ost = [x \in Terms |-> <<>>] /\ ocmd = [x \in Terms |-> <<>>]
TraceNext == Reset \/ Op
TraceSpec == TraceInit /\ [][TraceNext]_vars

TraceAccepted ==
  LET d == TLCGet("stats").diameter
  IN  IF d - 1 = Len(Rec) THEN TRUE
      ELSE /\ PrintT("M|first unmatched event|" \o ToString(d) \o "|" \o ToJson(Rec[d]))
           /\ FALSE
=============================================================================
