------------------------------- MODULE Units -------------------------------
(***************************************************************************)
(* rrtk's dimensional analysis: the unit of every operator form between    *)
(* Quantity, bare Unit, Time and DimensionlessInteger operands that yields *)
(* a Quantity or a Unit (transcribed from the three implementation tables  *)
(* of the module documentation), when it panics, the grammar of the named  *)
(* unit constants, and the PositionDerivative / Command / MotionProfile-   *)
(* Piece conversions.                                                      *)
(*                                                                         *)
(* A unit is <<millimetre exponent, second exponent>>.  Time enters as     *)
(* seconds <<0, 1>> with value ns / 1e9, DimensionlessInteger as <<0, 0>>. *)
(* The numeric part of a result is the plain f32 operator on the raw       *)
(* values (evaluated by the harness); the specification predicts unit or   *)
(* panic.  DimCheck = FALSE models a build without dimension checking:     *)
(* nothing panics and nothing is rejected.                                 *)
(***************************************************************************)
EXTENDS Integers, Sequences, FiniteSets, TLC, Json, Outcome

CONSTANTS Family,     \* "grid": every case on the 7x7 grid; "walk": random chains with exponents up to |60|; "names": constants and conversions
          DimCheck, MaxLen, Emit

VARIABLES case, reg, hist, n
vars == <<case, reg, hist, n>>

Grid == {<<m, s>> : m \in -3..3, s \in -3..3}
SEC == <<0, 1>>
NONE == <<0, 0>>
UAdd(u, w) == <<u[1] + w[1], u[2] + w[2]>>
USub(u, w) == <<u[1] - w[1], u[2] - w[2]>>

Opnd(k, u) == [k |-> k, u |-> u]
UnitOfOpnd(o) == CASE o.k \in {"q", "u"} -> o.u [] o.k = "t" -> SEC [] o.k = "di" -> NONE

Arith == {"add", "sub", "mul", "div"}
Cmp == {"lt", "le", "gt", "ge", "pcmp"}

(* Result of one operator form: [panic, unit]; `unit' is meaningful when the result is a Quantity or Unit. *)
Result(form, l, r) ==
  LET L == UnitOfOpnd(l)
      R == UnitOfOpnd(r)
  IN  CASE form \in {"add", "sub"} -> [panic |-> DimCheck /\ L # R, unit |-> L]
        [] form = "mul" -> [panic |-> FALSE, unit |-> UAdd(L, R)]
        [] form = "div" -> [panic |-> FALSE, unit |-> USub(L, R)]
        [] form \in {"neg", "abs"} -> [panic |-> FALSE, unit |-> L]
        [] form \in Cmp -> [panic |-> DimCheck /\ L # R, unit |-> NONE]
        [] form = "eq" -> [panic |-> FALSE, unit |-> NONE, uniteq |-> (~DimCheck) \/ L = R]

(* which forms exist (left kind, right kind) -> forms x assign flag *)
FormsFor(lk, rk) ==
  CASE lk = "q" /\ rk = "q" -> {<<f, a>> : f \in Arith, a \in BOOLEAN} \cup {<<f, FALSE>> : f \in Cmp \cup {"eq"}}
    [] lk = "u" /\ rk = "u" -> {<<f, a>> : f \in Arith, a \in BOOLEAN} \cup {<<"eq", FALSE>>}
    [] lk = "q" /\ rk \in {"t", "di"} -> {<<f, a>> : f \in Arith, a \in BOOLEAN}
    [] lk \in {"t", "di"} /\ rk = "q" -> {<<f, FALSE>> : f \in Arith}
    [] lk = "t" /\ rk = "t" -> {<<"mul", FALSE>>, <<"div", FALSE>>}
    [] lk = "di" /\ rk = "t" -> {<<"div", FALSE>>}
    [] OTHER -> {}
UnaryFor(k) == CASE k = "q" -> {"neg", "abs"} [] k = "u" -> {"neg"} [] OTHER -> {}

Operands(k) == IF k \in {"q", "u"} THEN {Opnd(k, u) : u \in Grid} ELSE {Opnd(k, NONE)}
Kinds == {"q", "u", "t", "di"}

(* every case on the grid, as an initial-state predicate (enumerated by TLC without building the set) *)
GridInit ==
  \/ \E lk \in Kinds, rk \in Kinds : \E fa \in FormsFor(lk, rk) : \E l \in Operands(lk), r \in Operands(rk) :
        case = [form |-> fa[1], assign |-> fa[2], l |-> l, r |-> r]
  \/ \E k \in Kinds : \E f \in UnaryFor(k) : \E l \in Operands(k) : case = [form |-> f, assign |-> FALSE, l |-> l, r |-> l]

(* named constants: tokens of the documented grammar *)
Pw(word, e) == CASE e = 1 -> <<word>> [] e = 2 -> <<word, "SQUARED">> [] e = 3 -> <<word, "CUBED">>
NameOf(u) ==
  LET m == u[1]
      s == u[2]
      am == IF m < 0 THEN -m ELSE m
      as == IF s < 0 THEN -s ELSE s
  IN  IF m = 0 /\ s = 0 THEN <<"DIMENSIONLESS">>
      ELSE IF m > 0 THEN Pw("MILLIMETER", am) \o (IF s > 0 THEN Pw("SECOND", as) ELSE IF s < 0 THEN <<"PER">> \o Pw("SECOND", as) ELSE <<>>)
      ELSE IF m = 0 THEN (IF s > 0 THEN Pw("SECOND", as) ELSE <<"INVERSE">> \o Pw("SECOND", as))
      ELSE IF s > 0 THEN Pw("SECOND", as) \o <<"PER">> \o Pw("MILLIMETER", am)
      ELSE <<"INVERSE">> \o Pw("MILLIMETER", am) \o (IF s < 0 THEN Pw("SECOND", as) ELSE <<>>)

(* position derivative kinds 0, 1, 2 <-> mm, mm/s, mm/s^2 *)
PDUnit(k) == <<1, -k>>
PDOfUnit(u) == IF u[1] = 1 /\ u[2] \in {0, -1, -2} THEN Just(-u[2]) ELSE Nothing
(* motion profile pieces 0..4: before start, initial acceleration, constant velocity, end acceleration, complete *)
PieceUnit(p) == CASE p \in {1, 3} -> Just(PDUnit(2)) [] p = 2 -> Just(PDUnit(1)) [] OTHER -> Nothing

NameCases ==
  {[form |-> "name", u |-> u, tokens |-> NameOf(u)] : u \in Grid}
  \cup {[form |-> "unit_from_pd", k |-> k, unit |-> PDUnit(k)] : k \in 0..2}
  \cup {[form |-> "pd_from_unit", u |-> u, res |-> PDOfUnit(u)] : u \in Grid}
  \cup {[form |-> "quantity_from_command", k |-> k, unit |-> PDUnit(k)] : k \in 0..2}
  \cup {[form |-> "command_from_quantity", u |-> u, res |-> PDOfUnit(u)] : u \in Grid}
  \cup {[form |-> "unit_from_piece", p |-> p, res |-> PieceUnit(p)] : p \in 0..4}

-----------------------------------------------------------------------------
(* "walk": a register holding a unit (twin: a Quantity and a bare Unit are driven by the same operations) *)
Big == -60..60
WalkOps == <<"mul", "div", "mul", "div", "add", "sub", "neg", "addsame", "subsame">>
WalkStep ==
  \* RandomElement is evaluated once per binding (a LET definition would be re-evaluated at every use)
  \E m \in {RandomElement(Big)}, s \in {RandomElement(Big)}, fi \in {RandomElement(1..Len(WalkOps))} :
    LET f == WalkOps[fi]
        same == f \in {"addsame", "subsame"}
        form == CASE f = "addsame" -> "add" [] f = "subsame" -> "sub" [] OTHER -> f
        opnd == IF same \/ f = "neg" THEN reg ELSE <<m, s>>
        res == Result(form, Opnd("q", reg), Opnd("q", opnd))
    IN  /\ res.unit[1] \in -120..120 /\ res.unit[2] \in -120..120      \* i8 exponents never overflow (excluded by the property)
        /\ reg' = IF res.panic THEN reg ELSE res.unit
        /\ n' = IF res.panic THEN MaxLen ELSE n + 1         \* a panic ends the behaviour
        /\ hist' = Append(hist, [form |-> form, w |-> opnd, unit |-> res.unit, panic |-> res.panic])

Init ==
  /\ n = 0
  /\ IF Family = "walk" THEN (case = [form |-> "walk"] /\ reg \in {<<0, 0>>, <<1, -2>>, <<-3, 3>>})
     ELSE reg = NONE /\ (IF Family = "grid" THEN GridInit ELSE case \in NameCases)
  /\ hist = <<[form |-> "init", w |-> reg, unit |-> reg, panic |-> FALSE]>>
Next ==
  /\ Family = "walk" /\ n < MaxLen /\ UNCHANGED case /\ WalkStep
Spec == Init /\ [][Next]_vars

(* Laws *)
GridLaw ==
  (Family = "grid") =>
     LET res == Result(case.form, case.l, case.r)
     IN  /\ (~DimCheck => ~res.panic)                                                         \* nothing panics without checking
         /\ (case.form \in {"add", "sub"} \cup Cmp => (res.panic <=> (DimCheck /\ UnitOfOpnd(case.l) # UnitOfOpnd(case.r))))
         /\ (case.form = "mul" => USub(res.unit, UnitOfOpnd(case.r)) = UnitOfOpnd(case.l))    \* (u * w) / w = u
         /\ (case.form = "div" => UAdd(res.unit, UnitOfOpnd(case.r)) = UnitOfOpnd(case.l))
         \* bare units behave like quantities: the unit and the panic do not depend on the operand being "q" or "u"
         /\ (case.l.k = "u" /\ case.r.k = "u" => res = Result(case.form, Opnd("q", case.l.u), Opnd("q", case.r.u)))
NameLaw ==
  (Family = "names" /\ case.form = "name") => \A v \in Grid : (NameOf(v) = case.tokens) => v = case.u   \* names are unambiguous
WalkLaw == (Family = "walk") => (reg[1] \in -128..127 /\ reg[2] \in -128..127)
Laws == GridLaw /\ NameLaw /\ WalkLaw

WalkBound == reg[1] \in -120..120 /\ reg[2] \in -120..120

EmitInv ==
  Emit =>
    IF Family = "walk" THEN (n = MaxLen => PrintT(<<"B", ToJson([family |-> "walk", dimcheck |-> DimCheck, steps |-> hist])>>))
    ELSE IF Family = "grid"
    THEN PrintT(<<"B", ToJson([family |-> "grid", dimcheck |-> DimCheck, case |-> case, res |-> Result(case.form, case.l, case.r)])>>)
    ELSE PrintT(<<"B", ToJson([family |-> "names", dimcheck |-> DimCheck, case |-> case])>>)
=============================================================================
