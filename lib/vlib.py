"""Orchestration shared by all checks: TLC runner, harness builder, replay/trace runners,
evidence writer, known-findings matcher.

Exit codes of ./check:  0 property held on everything explored (known findings are listed),
                        1 violation (a line `VIOLATION property=<id> replay=<path>` is printed),
                        2 tool error / time-out / build failure (never reported as a violation).
"""
import json, os, re, subprocess, sys, time, threading, shutil, hashlib

VERIF = os.path.dirname(os.path.dirname(os.path.abspath(__file__)))
SPEC = os.path.join(VERIF, "spec")
HARNESS = os.path.join(VERIF, "harness")
OUT = os.environ.get("VERIF_OUT") or os.path.join(VERIF, "out")          # VERIF_OUT / VERIF_EVID: private scratch for a second concurrent run
EVID = os.environ.get("VERIF_EVID") or os.path.join(VERIF, "evidence")
TLA_CP = "/opt/veriftools/tla/tla2tools.jar:/opt/veriftools/tla/CommunityModules-deps.jar"


class ToolError(Exception):
    pass


def log(*a):
    print("[check]", *a, file=sys.stderr, flush=True)


class Ctx:
    def __init__(self, pid, tier, seed, level="model_checking"):
        self.pid, self.tier, self.seed, self.level = pid, tier, seed, level
        self.t0 = time.time()
        self.out = os.path.join(OUT, pid)
        os.makedirs(self.out, exist_ok=True)
        # remove stale violation files of earlier runs
        for f in os.listdir(self.out):
            if f.startswith("viol_"):
                os.remove(os.path.join(self.out, f))
        self.states = 0
        self.transitions = 0
        self.traces = 0          # behaviours replayed into the implementation + traces validated by TLC
        self.evaluations = 0
        self.nontrivial = set()
        self.samples = []
        self.tlc_cmds = []
        self.violations = []     # (signature, replay path, text)
        self.known_hits = []
        self.notes = []
        self.beyond = []         # deviations from parts of the specification that lie beyond the property's statement: reported, never a violation
        self.assumptions = []
        self.extra = {}
        self.lock = threading.Lock()
        self.nviol = 0
        self.exhaustive = None
        self.rule = ""
        kf = os.path.join(VERIF, "known_findings.json")
        self.known = json.load(open(kf)) if os.path.exists(kf) else {"open": [], "fixed": []}

    # -- bookkeeping -----------------------------------------------------------------------
    def sample(self, x, limit=6):
        with self.lock:
            if len(self.samples) < limit:
                self.samples.append(x)

    def count_nontrivial(self, key):
        with self.lock:
            self.nontrivial.add(key)

    def violation(self, signature, replay, text):
        """Record a violation unless `signature` is a listed open known finding."""
        with self.lock:
            for k in self.known.get("open", []):
                if k["property"] == self.pid and k["signature"] == signature:
                    if signature not in [h[0] for h in self.known_hits]:
                        self.known_hits.append((signature, k["what"]))
                    return False
            self.nviol += 1
            path = os.path.join(self.out, "viol_%d.json" % self.nviol)
            replay = dict(replay)
            replay["property"] = self.pid
            replay["signature"] = signature
            replay["text"] = text
            replay["rerun"] = "./check %s --replay %s" % (self.pid, path)
            json.dump(replay, open(path, "w"), indent=1)
            self.violations.append((signature, path, text))
            return True

    def beyond_property(self, text):
        """The implementation deviates from a part of the specification that models behaviour beyond the listed property (the specification
        covers more of the system than the properties): an EXTRA-DEVIATION line and an evidence entry, no VIOLATION, exit status unaffected."""
        with self.lock:
            self.beyond.append(text)

    # -- finish ----------------------------------------------------------------------------
    def finish(self):
        wall = time.time() - self.t0
        cov = {
            "states": int(self.states),
            "transitions": int(self.transitions),
            "traces_validated_against_impl": int(self.traces),
            "samples": self.samples[:8] if self.samples else ["(none)"],
            "evaluations": int(self.evaluations),
            "distinct_nontrivial": len(self.nontrivial),
            "rule": self.rule,
            "checker_cmd": " ; ".join(self.tlc_cmds[:6]),
            "known_findings_hit": [h[0] for h in self.known_hits],
            "notes": self.notes,
        }
        if self.exhaustive is not None:
            cov["exhaustive"] = bool(self.exhaustive)
        if self.beyond:
            cov["beyond_property_deviations"] = self.beyond[:20]
        cov.update(self.extra)
        ev = {
            "property_id": self.pid, "tier": self.tier, "seed": int(self.seed), "level": self.level,
            "coverage": cov, "assumptions": self.assumptions, "wall_s": round(wall, 2),
            "violations": len(self.violations),
        }
        os.makedirs(EVID, exist_ok=True)
        json.dump(ev, open(os.path.join(EVID, self.pid + ".json"), "w"), indent=1)
        # the emitted behaviours of a thorough run are gigabytes; when nothing was found they are of no further use
        if not self.violations and not self.known_hits:
            try:
                for f in os.listdir(self.out):
                    fp = os.path.join(self.out, f)
                    if f.endswith(".ndjson") and os.path.isfile(fp) and os.path.getsize(fp) > 64 * 1024 * 1024:
                        os.remove(fp)
            except OSError:
                pass
        for sig, what in self.known_hits:
            print("KNOWN-FINDING: property=%s %s (%s)" % (self.pid, sig, what))
        for text in self.beyond[:5]:
            print("EXTRA-DEVIATION check=%s (behaviour beyond the property's statement; not a violation of it) %s" % (self.pid, text[:400]))
        for sig, path, text in self.violations[:20]:
            print("VIOLATION property=%s replay=%s" % (self.pid, path))
            print("  " + text[:600])
        log("%s %s: states=%d transitions=%d traces=%d evaluations=%d nontrivial=%d violations=%d wall=%.1fs" % (
            self.pid, self.tier, self.states, self.transitions, self.traces, self.evaluations,
            len(self.nontrivial), len(self.violations), wall))
        return 1 if self.violations else 0


# ---------------------------------------------------------------------------------------------
# TLC
# ---------------------------------------------------------------------------------------------
def cfg_text(spec="Spec", constants=None, invariants=(), constraints=(), properties=(), view=None,
             action_constraints=(), deadlock=False, postcondition=None, init=None, next_=None):
    lines = []
    if init:
        lines += ["INIT " + init, "NEXT " + next_]
    else:
        lines.append("SPECIFICATION " + spec)
    if constants:
        lines.append("CONSTANTS")
        for k, v in constants.items():
            lines.append("  %s = %s" % (k, tla_val(v)))
    if invariants:
        lines.append("INVARIANTS " + " ".join(invariants))
    if properties:
        lines.append("PROPERTIES " + " ".join(properties))
    for c in constraints:
        lines.append("CONSTRAINT " + c)
    for c in action_constraints:
        lines.append("ACTION_CONSTRAINT " + c)
    if view:
        lines.append("VIEW " + view)
    if postcondition:
        lines.append("POSTCONDITION " + postcondition)
    lines.append("CHECK_DEADLOCK " + ("TRUE" if deadlock else "FALSE"))
    return "\n".join(lines) + "\n"


def tla_val(v):
    if isinstance(v, bool):
        return "TRUE" if v else "FALSE"
    if isinstance(v, int):
        return str(v)
    if isinstance(v, str):
        return v if v.startswith("@") is False and (v.startswith("{") or v.startswith("<<") or v.startswith("[")) else '"%s"' % v
    if isinstance(v, (set, frozenset, list, tuple)):
        inner = ", ".join(tla_val(x) for x in (sorted(v) if isinstance(v, (set, frozenset)) else v))
        return ("{%s}" if isinstance(v, (set, frozenset)) else "<<%s>>") % inner
    raise ValueError(v)


_STAT = re.compile(r"(\d+) states generated, (\d+) distinct states found")
_SIMSTAT = re.compile(r"The number of states generated: (\d+)")


def run_tlc(ctx, module, cfg, name, workers=4, simulate=None, depth=None, timeout=900, heap="4g",
            env=None, behaviours=True, extra_args=(), dfs_queue=False, coverage=False):
    """Run TLC on spec/<module>.tla with the given cfg text.  Lines `<<"B", "<json>">>` printed by
    the specification are unescaped and written to <out>/<name>.ndjson.  Returns a dict."""
    cfgp = os.path.join(ctx.out, name + ".cfg")
    open(cfgp, "w").write(cfg)
    meta = os.path.join(ctx.out, "tlc_" + name)
    shutil.rmtree(meta, ignore_errors=True)
    behp = os.path.join(ctx.out, name + ".ndjson")
    logp = os.path.join(ctx.out, name + ".tlc.log")
    jopts = ["-XX:+UseParallelGC", "-XX:ParallelGCThreads=4", "-Xmx" + heap, "-Xss512m"]
    if dfs_queue:
        jopts.append("-Dtlc2.tool.queue.IStateQueue=StateDeque")
    cmd = ["java"] + jopts + ["-cp", TLA_CP, "tlc2.TLC", "-workers", str(workers), "-metadir", meta,
                              "-cleanup", "-noGenerateSpecTE", "-config", cfgp]
    if coverage:
        cmd += ["-coverage", "1"]
    if simulate:
        cmd += ["-simulate", "num=%d" % simulate, "-depth", str(depth or 100), "-seed", str(ctx.seed & 0x7fffffff)]
    cmd += list(extra_args) + [module + ".tla"]
    shown = "tlc " + " ".join(cmd[cmd.index("tlc2.TLC") + 1:])
    with ctx.lock:
        ctx.tlc_cmds.append(shown)
    e = dict(os.environ)
    e.pop("JAVA_TOOL_OPTIONS", None)
    if env:
        e.update(env)
    t0 = time.time()
    p = subprocess.Popen(cmd, cwd=SPEC, stdout=subprocess.PIPE, stderr=subprocess.STDOUT, env=e, text=True,
                         bufsize=1 << 20)
    timer = threading.Timer(timeout, p.kill)
    timer.start()
    nb = 0
    gen = dist = 0
    errors = []
    msgs = []
    inerr = 0
    with open(behp, "w") as bf, open(logp, "w") as lf:
        for line in p.stdout:
            if line.startswith('<<"B", "'):
                s = line.rstrip("\n")
                try:
                    bf.write(json.loads(s[7:-2]) + "\n")
                    nb += 1
                except Exception as ex:  # a broken line is a tool error
                    errors.append("unparsable emission: %r (%s)" % (s[:200], ex))
                continue
            lf.write(line)
            if line.startswith('"M|'):
                msgs.append(line.rstrip("\n"))
            m = _STAT.search(line)
            if m:
                gen, dist = int(m.group(1)), int(m.group(2))
            m = _SIMSTAT.search(line)
            if m:
                gen = dist = int(m.group(1))
            if line.startswith("Error:") or inerr:
                if line.startswith("Error:"):
                    inerr = 25
                errors.append(line.rstrip("\n"))
                inerr -= 1
    p.wait()
    timer.cancel()
    shutil.rmtree(meta, ignore_errors=True)
    wall = time.time() - t0
    if p.returncode not in (0,) and not errors:
        errors.append("TLC exited with %s (timeout %ss?) see %s" % (p.returncode, timeout, logp))
    with ctx.lock:
        ctx.states += dist
        ctx.transitions += gen
    res = {"behaviours": behp, "n": nb, "generated": gen, "distinct": dist, "errors": errors, "wall": wall,
           "log": logp, "msgs": msgs, "rc": p.returncode}
    log("TLC %s/%s: %d distinct / %d generated states, %d behaviours emitted, %.1fs%s" % (
        module, name, dist, gen, nb, wall, (" ERRORS: " + " | ".join(errors[:3])) if errors else ""))
    return res


def tlc_ok(res):
    if res["errors"]:
        raise ToolError("TLC reported an error on the specification itself (%s): %s" % (
            res["log"], " | ".join(res["errors"][:12])))
    return res


# ---------------------------------------------------------------------------------------------
# harness
# ---------------------------------------------------------------------------------------------
_built = {}
_build_lock = threading.Lock()


def build_harness(bins, features=None, tag="default", checked=False):
    """cargo build (release profile, hooks on via .cargo/config.toml) against /repo's working tree.
    checked=True: the same build with integer overflow checks and debug assertions switched on (what `cargo test` users run): a
    change that only panics there - an overflowing `t + limit`, a new debug_assert - is invisible in the plain release build."""
    if checked:
        tag = tag + "-checked"
    with _build_lock:
        key = (tuple(sorted(bins)), tag)
        if key in _built:
            return _built[key]
        tdir = os.path.join(HARNESS, "target" if tag == "default" else "target-" + tag)
        cmd = ["cargo", "build", "--release", "--offline", "--target-dir", tdir]
        for b in bins:
            cmd += ["--bin", b]
        if features is not None:
            cmd += ["--no-default-features", "--features", ",".join(features)]
        t0 = time.time()
        e = dict(os.environ)
        e["CARGO_NET_OFFLINE"] = "true"
        if checked:
            e["CARGO_PROFILE_RELEASE_OVERFLOW_CHECKS"] = "true"
            e["CARGO_PROFILE_RELEASE_DEBUG_ASSERTIONS"] = "true"
        p = subprocess.run(cmd, cwd=HARNESS, stdout=subprocess.PIPE, stderr=subprocess.STDOUT, text=True, env=e)
        if p.returncode != 0:
            raise ToolError("harness build failed (a change to a public signature of rrtk, or a compile error in it):\n" + p.stdout[-3000:])
        log("built %s [%s] in %.1fs" % (",".join(bins), tag, time.time() - t0))
        _built[key] = os.path.join(tdir, "release")
        return _built[key]


def run_bin(bindir, binname, args, timeout=900, stdin=None, env=None):
    e = dict(os.environ)
    if env:
        e.update(env)
    try:
        p = subprocess.run([os.path.join(bindir, binname)] + [str(a) for a in args], stdout=subprocess.PIPE,
                           stderr=subprocess.PIPE, text=True, timeout=timeout, input=stdin, env=e)
    except subprocess.TimeoutExpired:
        raise ToolError("%s timed out after %ss" % (binname, timeout))
    mism, summary, other = [], None, []
    for line in p.stdout.splitlines():
        if line.startswith("MISMATCH "):
            mism.append(json.loads(line[9:]))
        elif line.startswith("SUMMARY "):
            summary = json.loads(line[8:])
        else:
            other.append(line)
    if p.returncode != 0 or summary is None:
        raise ToolError("%s %s failed rc=%s: %s %s" % (binname, " ".join(map(str, args)), p.returncode,
                                                      p.stderr[-2000:], "\n".join(other[-5:])))
    return mism, summary, other


def run_bin_checked_too(binname, args, features=None, tag="default", timeout=900):
    """replay with the plain release build and again with the overflow-checking build; mismatches of the second run that the first
    did not show are appended (marked with "build")"""
    mism, summary, other = run_bin(build_harness([binname], features, tag), binname, args, timeout=timeout)
    m2, s2, _ = run_bin(build_harness([binname], features, tag, checked=True), binname, args, timeout=timeout)
    seen = {m.get("line") for m in mism}
    extra = [dict(m, build="overflow checks and debug assertions on") for m in m2 if m.get("line") not in seen]
    summary = dict(summary)
    summary["checked_build_replays"] = s2.get("replays", s2.get("behaviours", 0))
    summary["checked_build_only_mismatches"] = len(extra)
    return mism + extra, summary, other


def read_ndjson(path, limit=None):
    out = []
    with open(path) as f:
        for i, l in enumerate(f):
            if limit is not None and i >= limit:
                break
            if l.strip():
                out.append(json.loads(l))
    return out


def nth_line(path, n):
    with open(path) as f:
        for i, l in enumerate(f):
            if i == n:
                return l.rstrip("\n")
    return None


def concat(paths, dest):
    with open(dest, "w") as o:
        for p in paths:
            with open(p) as f:
                shutil.copyfileobj(f, o)
    return dest


# ---------------------------------------------------------------------------------------------
# trace validation (impl -> spec)
# ---------------------------------------------------------------------------------------------
def validate_trace(ctx, module, trace_path, name, constants=None, timeout=600, extra_cfg=None):
    """TLC checks that the recorded trace is a behaviour of spec/<module>.tla (a Trace module that
    re-uses the specification's actions).  Acceptance = the whole trace was consumed."""
    n = sum(1 for l in open(trace_path) if l.strip())
    cfg = cfg_text(spec="TraceSpec", constants=constants or {}, postcondition="TraceAccepted",
                   invariants=(extra_cfg or {}).get("invariants", ()))
    res = run_tlc(ctx, module, cfg, name, workers=1, timeout=timeout, dfs_queue=True,
                  env={"TRACE": trace_path}, behaviours=False)
    accepted = not res["errors"]
    info = {"events": n, "accepted": accepted, "msgs": res["msgs"], "errors": res["errors"][:12], "log": res["log"]}
    return info


def run_tlapm(ctx, module, deps, timeout=600):
    """check the TLAPS proofs of spec/<module>.tla in a scratch copy (no fingerprint cache); returns the number of obligations proved"""
    import shutil, re
    d = os.path.join(ctx.out, "tlaps_" + module)
    shutil.rmtree(d, ignore_errors=True)
    os.makedirs(d)
    for m in [module] + list(deps):
        shutil.copy(os.path.join(SPEC, m + ".tla"), d)
    t0 = time.time()
    try:
        p = subprocess.run(["tlapm", "--threads", "4", "--cleanfp", module + ".tla"], cwd=d, stdout=subprocess.PIPE, stderr=subprocess.STDOUT,
                           text=True, timeout=timeout)
    except subprocess.TimeoutExpired:
        raise ToolError("tlapm timed out on %s" % module)
    open(os.path.join(ctx.out, module + ".tlapm.log"), "w").write(p.stdout)
    m = re.search(r"All (\d+) obligations? proved", p.stdout)
    shutil.rmtree(d, ignore_errors=True)
    if p.returncode != 0 or not m:
        raise ToolError("tlapm did not prove %s: %s" % (module, " | ".join(p.stdout.strip().splitlines()[-6:])))
    log("TLAPS %s: %s obligations proved, %.1fs" % (module, m.group(1), time.time() - t0))
    return int(m.group(1))


def run_apalache(ctx, module, obligations, cinit="ConstInit", timeout=900):
    """Apalache (symbolic): each obligation (name, init predicate, invariant, length) must come out 'EXITCODE: OK'.  Used for inductive
    invariants: (Init, IndInv, 0), (IndInit, IndInv, 1), (IndInit, Safety, 0)."""
    import shutil
    od = os.path.join(ctx.out, "apalache_" + module)
    shutil.rmtree(od, ignore_errors=True)
    t0 = time.time()
    for name, init, inv, length in obligations:
        cmd = ["apalache-mc", "check", "--cinit=" + cinit, "--init=" + init, "--inv=" + inv, "--length=%d" % length, "--out-dir=" + od, module + ".tla"]
        try:
            p = subprocess.run(cmd, cwd=SPEC, stdout=subprocess.PIPE, stderr=subprocess.STDOUT, text=True, timeout=timeout)
        except subprocess.TimeoutExpired:
            raise ToolError("apalache timed out on %s / %s" % (module, name))
        open(os.path.join(ctx.out, "%s.%s.apalache.log" % (module, name)), "w").write(p.stdout)
        if "EXITCODE: OK" not in p.stdout:
            raise ToolError("apalache did not establish %s of %s: %s" % (name, module, " | ".join(p.stdout.strip().splitlines()[-5:])))
        with ctx.lock:
            ctx.tlc_cmds.append("apalache-mc " + " ".join(cmd[1:]))
    shutil.rmtree(od, ignore_errors=True)
    try:
        os.rmdir(os.path.join(SPEC, "tmp"))          # apalache leaves an empty scratch directory next to the module
    except OSError:
        pass
    log("Apalache %s: %d obligations established, %.1fs" % (module, len(obligations), time.time() - t0))
