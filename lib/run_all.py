#!/usr/bin/env python3
"""Run every claimed check (quick by default) on the current tree and validate MANIFEST/evidence against the schemas."""
import json, os, subprocess, sys, time
V = os.path.dirname(os.path.dirname(os.path.abspath(__file__)))
tier = sys.argv[1] if len(sys.argv) > 1 else "quick"
only = sys.argv[2].split(",") if len(sys.argv) > 2 else None
m = json.load(open(os.path.join(V, "MANIFEST.json")))
bad = 0
for c in m["checks"]:
    pid = c["property_id"]
    if only and pid not in only: continue
    t0 = time.time()
    cmd = c["quick_cmd"] if tier == "quick" else c["thorough_cmd"]
    r = subprocess.run(cmd, shell=True, cwd=V, stdout=subprocess.PIPE, stderr=subprocess.STDOUT, text=True)
    v = [l for l in r.stdout.splitlines() if l.startswith(("VIOLATION", "KNOWN-FINDING", "TOOL-ERROR"))]
    print("%s exit=%d %.0fs %s" % (pid, r.returncode, time.time() - t0, " | ".join(v)[:300]), flush=True)
    bad += r.returncode != 0
r = subprocess.run(["python3-vt", "-c", """
import json,jsonschema,sys
V=%r
m=json.load(open(V+'/MANIFEST.json'))
jsonschema.validate(m, json.load(open('/root/.vp/MANIFEST.schema.json')))
es=json.load(open('/root/.vp/EVIDENCE.schema.json'))
for c in m['checks']:
    jsonschema.validate(json.load(open(c['evidence_file'])), es)
print('manifest and', len(m['checks']), 'evidence files valid')
""" % V], stdout=subprocess.PIPE, stderr=subprocess.STDOUT, text=True)
print(r.stdout[-600:])
sys.exit(1 if bad else 0)
