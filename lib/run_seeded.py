#!/usr/bin/env python3
"""run_seeded.py [--tier quick] [--only <substr>] [--checks C05,C08] : apply each seeded change under /verif/seeded to /repo,
run the check of the property it breaks (and any extra checks), undo the change, record the outcome in seeded/RESULTS.json."""
import json, os, subprocess, sys, time
V = os.path.dirname(os.path.dirname(os.path.abspath(__file__)))
args = sys.argv[1:]
tier = "quick"; only = None; extra = []
i = 0
while i < len(args):
    if args[i] == "--tier": tier = args[i+1]; i += 2
    elif args[i] == "--only": only = args[i+1]; i += 2
    elif args[i] == "--checks": extra = args[i+1].split(","); i += 2
    else: i += 1
resf = os.path.join(V, "seeded", "RESULTS.json")
results = json.load(open(resf)) if os.path.exists(resf) else {}
claimed = {c["property_id"] for c in json.load(open(os.path.join(V, "MANIFEST.json")))["checks"]}
def sh(cmd, **kw):
    return subprocess.run(cmd, stdout=subprocess.PIPE, stderr=subprocess.STDOUT, text=True, **kw)
assert sh(["git", "-C", "/repo", "status", "--porcelain", "--untracked-files=no"]).stdout.strip() == "", "/repo not clean"
for d in sorted(os.listdir(os.path.join(V, "seeded"))):
    p = os.path.join(V, "seeded", d, "patch.diff")
    if not os.path.exists(p) or (only and only not in d):
        continue
    meta = json.load(open(os.path.join(V, "seeded", d, "meta.json")))
    # round 4 changes were written against an AREA of the crate, not a property: they list the checks that look at that area
    props = ([meta["breaks_property"]] if meta.get("breaks_property") else []) + list(meta.get("also_breaks", [])) + list(meta.get("candidate_checks", []))
    checks = [c for c in dict.fromkeys(props + extra) if c in claimed]
    if not checks:
        print(d, "no claimed check yet"); continue
    r = sh(["git", "-C", "/repo", "apply", p])
    if r.returncode != 0:
        print(d, "patch does not apply:", r.stdout[:200]); continue
    try:
        for c in checks:
            t0 = time.time()
            r = sh([os.path.join(V, "check"), c, "--tier", tier], cwd=V)
            nv = sum(1 for l in r.stdout.splitlines() if l.startswith("VIOLATION property=%s " % c))
            first = next((l for l in r.stdout.splitlines() if l.startswith("  ")), "")
            results.setdefault(d, {})[c] = {"tier": tier, "exit": r.returncode, "violations": nv, "first": first.strip()[:300], "wall_s": round(time.time()-t0, 1)}
            print("%-14s %s exit=%d violations=%d %.0fs" % (d, c, r.returncode, nv, time.time()-t0), flush=True)
    finally:
        sh(["git", "-C", "/repo", "checkout", "--", "."])
    json.dump(results, open(resf, "w"), indent=1, sort_keys=True)
# restore evidence of the unchanged tree is the caller's business (re-run the checks)
