"""Property id -> check function; replay dispatcher."""
import json, os, sys
import vlib
from vlib import ToolError

CHECKS = {}
REPLAYERS = {}


def register(pid):
    def deco(f):
        CHECKS[pid] = f
        return f
    return deco


def replayer(kind):
    def deco(f):
        REPLAYERS[kind] = f
        return f
    return deco


def replay(pid, path):
    v = json.load(open(path))
    kind = v.get("replay_kind")
    if kind not in REPLAYERS:
        raise ToolError("do not know how to replay %r" % kind)
    still = REPLAYERS[kind](pid, v)
    if still:
        print("VIOLATION property=%s replay=%s" % (pid, path))
        print("  " + str(still)[:800])
        return 1
    print("replay of %s: the recorded case now agrees with the specification" % path)
    return 0


import p_streams  # noqa: E402,F401
import p_devices  # noqa: E402,F401
import p_pure  # noqa: E402,F401
import p_profile  # noqa: E402,F401
import p_settable  # noqa: E402,F401
import p_wrappers  # noqa: E402,F401
import p_reference  # noqa: E402,F401
import p_config  # noqa: E402,F401
import p_lifetimes  # noqa: E402,F401
