"""C04, C05, C10, C11, C12: the stateful streams (spec/Streams.tla).

TLC explores Streams.tla: every history up to a bound (and random long histories) for the selected
machine kinds; on every state it checks the laws of the specification (no stale error, reset twin,
skip-absent twin, closed-form references) and prints each maximal behaviour with its predicted
observations.  harness `streams replay` executes every behaviour against the real streams under
several concretisations of time and value scale and compares after every event."""
import json, os, random, concurrent.futures as cf
import vlib
from vlib import cfg_text, run_tlc, tlc_ok, build_harness, run_bin, ToolError, log
from registry import register, replayer

ALL = ["PID", "CmdPID", "EWMA", "EWMAQ", "MA", "MAQ", "Integral", "Derivative",
       "AccToState", "VelToState", "PosToState", "F2Q", "Q2F", "Freeze"]
WIDE = {"CmdPID", "CmdPIDF", "EWMA", "EWMAQ", "MA", "MAQ", "Freeze"}    # larger alphabets


def concs_for(ctx, n_random):
    rnd = random.Random(ctx.seed)
    cs = [
        {"base": 0, "tick_pow2": 0, "scale_pow2": 0},
        {"base": -7_000_000_000, "tick_pow2": -2, "scale_pow2": 3},
        {"base": 1 << 40, "tick_pow2": 0, "scale_pow2": -1},
        {"base": 1 << 40, "tick_pow2": -9, "scale_pow2": 1},
        {"base": 1 << 55, "tick_pow2": 3, "scale_pow2": -2},
    ]
    for _ in range(n_random):
        cs.append({"base": rnd.randrange(-(1 << 52), 1 << 52), "tick_pow2": rnd.choice([-9, -6, -3, -1, 0, 0, 1, 4, 6]),
                   "scale_pow2": rnd.randrange(-6, 7)})
    return cs


def stream_cfg(kinds, maxlen, rich, dimcheck=True, laws=("AllLaws",), sim=False, unitgrid=False):
    return cfg_text(spec="SpecU" if sim else "Spec",
                    constants={"Kinds": set(kinds), "MaxLen": maxlen, "Emit": True, "DimCheck": dimcheck, "Rich": rich,
                               "UnitGrid": unitgrid},
                    invariants=list(laws) + ["EmitInv"], constraints=["Bound"])


def run_streams(ctx, kinds, exh_narrow, exh_wide, sim_num, sim_depth, rich, n_random_concs, dimcheck=True,
                features=None, tag="default", laws=("AllLaws",), unitgrid_len=0, structure_only=False, any_error_id=False):
    """Returns the list of mismatches (already recorded as violations)."""
    narrow = [k for k in kinds if k not in WIDE]
    wide = [k for k in kinds if k in WIDE]
    jobs = []
    with cf.ThreadPoolExecutor(max_workers=6) as ex:
        fb = ex.submit(build_harness, ["streams"], features, tag)
        if narrow:
            jobs.append(ex.submit(run_tlc, ctx, "Streams", stream_cfg(narrow, exh_narrow, rich, dimcheck, laws), "exh_narrow", 4, None, None, 3000))
        if wide:
            jobs.append(ex.submit(run_tlc, ctx, "Streams", stream_cfg(wide, exh_wide, rich, dimcheck, laws), "exh_wide", 4, None, None, 3000))
        if unitgrid_len:
            ug = [k for k in kinds if k in ("Integral", "Derivative", "AccToState", "VelToState", "PosToState")]
            jobs.append(ex.submit(run_tlc, ctx, "Streams", stream_cfg(ug, unitgrid_len, False, dimcheck, laws, unitgrid=True), "unitgrid", 4))
        if sim_num:
            jobs.append(ex.submit(run_tlc, ctx, "Streams", stream_cfg(kinds, sim_depth, rich, dimcheck, laws, sim=True), "sim", 2,
                                  sim_num, sim_depth + 2, 3000))
        results = [tlc_ok(j.result()) for j in jobs]
        bindir = fb.result()
    allb = vlib.concat([r["behaviours"] for r in results], os.path.join(ctx.out, "behaviours.ndjson"))
    total = sum(r["n"] for r in results)
    if total == 0:
        raise ToolError("TLC emitted no behaviours (vacuous run)")
    concs = concs_for(ctx, n_random_concs)
    cpath = os.path.join(ctx.out, "concs.json")
    json.dump(concs, open(cpath, "w"))
    if features is None:
        mism, summary, _ = vlib.run_bin_checked_too("streams", ["replay", allb, cpath] + (["--structure"] if structure_only else []) + (["--any-error-id"] if any_error_id else []), timeout=3000)
    else:
        mism, summary, _ = run_bin(bindir, "streams", ["replay", allb, cpath] + (["--structure"] if structure_only else []) + (["--any-error-id"] if any_error_id else []), timeout=3000)
    ctx.evaluations += summary.get("replays", 0)
    ctx.traces += summary.get("behaviours", 0)
    ctx.extra.setdefault("replay_summaries", []).append(summary)
    ctx.extra["nontrivial_behaviours"] = ctx.extra.get("nontrivial_behaviours", 0) + summary.get("nontrivial", 0)
    for k in range(summary.get("nontrivial", 0)):
        pass
    ctx.extra["concretisations"] = concs
    # samples: a few of the behaviours actually replayed
    for b in vlib.read_ndjson(allb, limit=3):
        ctx.sample({"kind": b["kind"], "par": b["par"], "steps": b["steps"][:6]})
    seen = set()
    for m in mism:
        key = (m["kind"], m["line"])
        if key in seen:
            continue
        seen.add(key)
        beh = json.loads(vlib.nth_line(allb, m["line"]))
        if followed_getter_error(m, beh):
            # how a controller that FOLLOWS a command getter passes on that getter's error is the following clause of C15 (checked there on the
            # trait's provided method); the stream properties speak of errors of the INPUT.  Modelled all the same; reported as beyond-property.
            ctx.beyond_property("Streams.tla (CmdPIDF: command PID following a command getter that reports an error) behaviour #%d step %d: %s; expected %s, "
                                "implementation gave %s" % (m["line"], m["step"], m["what"], json.dumps(m["exp"])[:200], json.dumps(m["got"])[:200]))
            continue
        sig = "%s:%s" % (m["kind"], m["what"])
        ctx.violation(sig, {"replay_kind": "streams", "behaviour": beh, "conc": m["conc"], "mismatch": m,
                            "features": features, "tag": tag, "structure_only": structure_only, "any_error_id": any_error_id},
                      "%s behaviour #%d step %d: %s; expected %s, implementation gave %s (concretisation %s)" % (
                          m["kind"], m["line"], m["step"], m["what"], json.dumps(m["exp"]), json.dumps(m["got"]), json.dumps(m["conc"])))
    return mism, summary, total


@replayer("streams")
def replay_streams(pid, v):
    out = os.path.join(vlib.OUT, pid)
    os.makedirs(out, exist_ok=True)
    bp = os.path.join(out, "replay_one.ndjson")
    open(bp, "w").write(json.dumps(v["behaviour"]) + "\n")
    cp = os.path.join(out, "replay_one_concs.json")
    json.dump([v["conc"]], open(cp, "w"))
    bindir = build_harness(["streams"], v.get("features"), v.get("tag", "default"), checked=bool(v.get("mismatch", {}).get("build")))
    mism, summary, _ = run_bin(bindir, "streams", ["replay", bp, cp] + (["--structure"] if v.get("structure_only") else []) + (["--any-error-id"] if v.get("any_error_id") else []))
    return mism[0] if mism else None


def followed_getter_error(m, beh):
    return m["kind"] == "CmdPIDF" and any(st["in"].get("c") == "fol" and st["in"].get("o", {}).get("c") == "err" for st in beh["steps"])


def replay_under(ctx, tags, extra_args=None):
    """replay the behaviours of this run under other feature configurations of rrtk as well"""
    import p_config
    allb = os.path.join(ctx.out, "behaviours.ndjson")
    cpath = os.path.join(ctx.out, "concs.json")
    for tag in tags:
        feats, dimcheck, powmode = p_config.CONFIGS[tag]
        bindir = build_harness(["streams"], feats, tag)
        args = ["replay", allb, cpath] + (["--skip-ewma-values"] if powmode == "approx" else []) + list(extra_args or [])
        mism, summary, _ = run_bin(bindir, "streams", args, timeout=3000)
        ctx.evaluations += summary.get("replays", 0)
        ctx.extra["replay_summary_" + tag] = summary
        seen = set()
        for m in mism:
            key = (m["kind"], m["line"])
            if key in seen:
                continue
            seen.add(key)
            beh = json.loads(vlib.nth_line(allb, m["line"]))
            if followed_getter_error(m, beh):
                ctx.beyond_property("[%s build] Streams.tla (CmdPIDF following a command getter that reports an error) behaviour #%d step %d: %s" % (
                    tag, m["line"], m["step"], m["what"]))
                continue
            ctx.violation("%s:%s:%s" % (m["kind"], m["what"], tag), {"replay_kind": "streams", "behaviour": beh, "conc": m["conc"], "mismatch": m,
                                                                   "features": feats, "tag": tag},
                          "[%s build] %s behaviour #%d step %d: %s; expected %s, implementation gave %s" % (
                              tag, m["kind"], m["line"], m["step"], m["what"], json.dumps(m["exp"]), json.dumps(m["got"])))


def stream_traces(ctx, kinds, n, structure_only=False, check_err_id=True):
    """impl -> spec: random histories on arbitrary floats recorded from the real streams (with real twins), validated by TLC.
    structure_only (C05): return value, category, error identity, timestamp, purity, reset twin and skip twin only."""
    from p_pure import trace_check
    bindir = build_harness(["streams"])
    what = ("stateful streams on arbitrary floats (category, error identity, timestamp, purity, reset / skip twins)" if structure_only else
            "stateful streams on arbitrary floats (category, error identity, timestamp, reset / skip / shift / scale / variant twins, filter bounds, f64 reference)")
    trace_check(ctx, "StreamsTrace", bindir, "streams", [ctx.seed, n, ",".join(kinds)] + (["huge"] if structure_only else []), "floats", what,
                "streams_trace", timeout=1500, constants={"StructureOnly": structure_only, "CheckErrId": check_err_id})


@replayer("streams_trace")
def replay_streams_trace(pid, v):
    from p_pure import trace_check
    ctx = vlib.Ctx(pid + "_replay", "quick", 1)
    bindir = build_harness(["streams"])
    ok = trace_check(ctx, "StreamsTrace", bindir, "streams", v["record_args"], "floats", "stateful streams on arbitrary floats", "streams_trace",
                     constants=v.get("constants") or {"StructureOnly": False, "CheckErrId": True})
    return None if ok else ctx.violations[0][2]


def tier_params(ctx):
    if ctx.tier == "quick":
        return dict(exh_narrow=4, exh_wide=3, sim_num=400, sim_depth=12, rich=False, n_random_concs=1)
    return dict(exh_narrow=5, exh_wide=4, sim_num=500, sim_depth=48, rich=False, n_random_concs=3)


def finish_streams(ctx, summary, total, what):
    ctx.rule = ("TLC enumerates every history of the machine kinds up to the exhaustive bound and random long histories "
                "(-simulate); each is replayed into the real stream under every concretisation (base time, tick, value "
                "scale). In the other direction random histories of 8..64 events on arbitrary finite floats with intervals from microseconds "
                "to hours are recorded from the real streams together with real twins (fresh streams restarted at the last absent / error / "
                "different-set event, the history without absent events, shifted timestamps, power-of-two scaled values, the Quantity variant, "
                "a second get) and validated event by event by TLC against StreamsTrace.tla / StreamShapes.tla. " + what + " Distinct = distinct abstract history (hash of the emitted line).")
    n = ctx.extra.get("nontrivial_behaviours", 0)
    for i in range(n):
        ctx.nontrivial.add(i)
    ctx.assumptions += ["exact dyadic domain: sample values, gains and tick lengths are small dyadic rationals, so the f32 "
                        "computation is exact and equals the specification's rational result (tolerance 2^-16 of the largest magnitude)",
                        "the TLA+ transcription of the per-stream documentation is the oracle for reset classes"]


@register("C04")
def c04(ctx):
    p = (dict(exh_narrow=5, exh_wide=0, sim_num=400, sim_depth=24, rich=False, n_random_concs=2) if ctx.tier == "quick" else
         dict(exh_narrow=4, exh_wide=0, sim_num=500, sim_depth=64, rich=True, n_random_concs=6))
    mism, summary, total = run_streams(ctx, ["PID"], any_error_id=True, **p)       # which error is shown is C05's clause
    stream_traces(ctx, ["PID"], 300 if ctx.tier == "quick" else 5000, check_err_id=False)
    finish_streams(ctx, summary, total,
                   "Each PID behaviour is also fed to the same controller assembled from the crate's difference, integral, "
                   "derivative, none-to-value, product, quantity-to-float and sum streams (compared after every present sample); "
                   "several bases = shift invariance, several value scales = power-of-two scaling. Non-trivial = a present "
                   "sample after a reset event, or at least two present samples.")
    ctx.exhaustive = False


@register("C10")
def c10(ctx):
    kinds = ["Integral", "Derivative", "AccToState", "VelToState", "PosToState"]
    p = (dict(exh_narrow=4, exh_wide=0, sim_num=400, sim_depth=16, rich=False, n_random_concs=2, unitgrid_len=2) if ctx.tier == "quick" else
         dict(exh_narrow=4, exh_wide=0, sim_num=500, sim_depth=64, rich=True, n_random_concs=6, unitgrid_len=3))
    mism, summary, total = run_streams(ctx, kinds, any_error_id=True, **p)
    stream_traces(ctx, kinds, 400 if ctx.tier == "quick" else 6000, check_err_id=False)
    finish_streams(ctx, summary, total,
                   "Input units range over the 7x7 grid (short histories) and a few units (long histories); a wrongly "
                   "dimensioned input to a to-state converter must panic iff dimension checking is compiled in. "
                   "Non-trivial = at least two present samples or a present sample after a reset.")
    ctx.exhaustive = False


def system_follower(ctx):
    """beyond the properties: the SYSTEM of spec/ProfileFollower.tla (CommandPID following GetterFromHistory over a MotionProfile)"""
    q = ctx.tier == "quick"
    cfg = cfg_text(spec="FSpec", constants={"Rich": False, "Emit": True, "MaxSteps": 5 if q else 7}, invariants=["FLaws", "FEmit"], constraints=["FSmall"])
    r = tlc_ok(run_tlc(ctx, "ProfileFollower", cfg, "follower", 4, timeout=3000))
    if r["n"] == 0:
        raise ToolError("ProfileFollower emitted no behaviours")
    bindir = build_harness(["profile"])
    mism, fsum, _ = run_bin(bindir, "profile", ["replay", r["behaviours"], ctx.seed, "--mode", "follower"], timeout=3000)
    ctx.extra["profile_follower_system"] = fsum
    for m in mism[:10]:
        ctx.beyond_property("ProfileFollower.tla (command PID following a motion profile through GetterFromHistory), behaviour #%d: %s; expected %s, got %s "
                            "(concretisation %s)" % (m["line"], m["what"], json.dumps(m["exp"])[:200], json.dumps(m["got"])[:200], json.dumps(m["conc"])))
    ctx.notes.append("beyond the properties: ProfileFollower.tla composes the reference trapezoid (MotionProfile.tla), the following rule and the CommandPID "
                     "machine (PIDMath.tla) into the system 'controller follows a motion profile'; TLC checks that the controller always pursues the "
                     "profile's command of the current time and is silent for exactly kind-many samples after every change of command; %d behaviours "
                     "replayed on the real MotionProfile + GetterFromHistory + CommandPID (bit for bit against a controller handed the same commands "
                     "through set, within 2^-16 against the specification), %d deviations (EXTRA-DEVIATION notes, not violations)" % (
                         fsum.get("behaviours", 0), fsum.get("mismatches", 0)))


@register("C11")
def c11(ctx):
    p = (dict(exh_narrow=0, exh_wide=4, sim_num=600, sim_depth=14, rich=False, n_random_concs=2) if ctx.tier == "quick" else
         dict(exh_narrow=0, exh_wide=5, sim_num=500, sim_depth=48, rich=False, n_random_concs=4))
    mism, summary, total = run_streams(ctx, ["CmdPID", "CmdPIDF"], **p)
    replay_under(ctx, ["std_nocheck"])      # command equality must not depend on dimension checking
    stream_traces(ctx, ["CmdPID"], 300 if ctx.tier == "quick" else 5000)
    system_follower(ctx)
    finish_streams(ctx, summary, total,
                   "Events: present state sample, absent, two error identities, set(command) with same / other kind / other "
                   "value, for initial commands of all three kinds with distinct gain triples per kind. Non-trivial = a present "
                   "sample after a reset (absent, error or different set), or at least two present samples.")
    ctx.exhaustive = False


@register("C12")
def c12(ctx):
    kinds = ["EWMA", "EWMAQ", "MA", "MAQ"]
    p = (dict(exh_narrow=0, exh_wide=4, sim_num=600, sim_depth=16, rich=False, n_random_concs=2) if ctx.tier == "quick" else
         dict(exh_narrow=0, exh_wide=4, sim_num=500, sim_depth=64, rich=True, n_random_concs=4))
    mism, summary, total = run_streams(ctx, kinds, any_error_id=True, **p)
    stream_traces(ctx, kinds, 400 if ctx.tier == "quick" else 6000, check_err_id=False)
    replay_under(ctx, ["libm_check", "micromath_check"], extra_args=["--any-error-id"])      # the EWMA's power function comes from the float back end
    finish_streams(ctx, summary, total,
                   "Timestamps are non-decreasing (dt 0 = repeated timestamp); windows shorter than a step, equal to it and "
                   "longer than the history; every f32-variant behaviour is also run on the Quantity variant and compared bit "
                   "for bit; an unexpected panic is a mismatch. Non-trivial = at least two present samples or a present sample "
                   "after an error.")
    ctx.exhaustive = False


@register("C05")
def c05(ctx):
    p = tier_params(ctx)
    # C05 is about outcome categories, error identities, resets and purity: numbers are compared by C04/C10/C11/C12
    mism, summary, total = run_streams(ctx, ALL, structure_only=True, **p)
    stream_traces(ctx, ALL, 600 if ctx.tier == "quick" else 10000, structure_only=True)
    nob = vlib.run_tlapm(ctx, "StreamShapesProof", ["StreamShapes"])
    nfz = vlib.run_tlapm(ctx, "FreezeShapeProof", ["StreamShapes"])
    ctx.notes.append("TLAPS: FreezeShapeProof.tla proves (%d obligations) the freeze clause on the value-free machine for any history: a true condition "
                     "changes nothing, an absent condition gives absent, a failing condition its error, a false condition passes the input's "
                     "category and error identity through" % nfz)
    ctx.notes.append("TLAPS: StreamShapesProof.tla proves (%d obligations), for histories of any length and each of the 13 non-freeze kinds, that the "
                     "output category is present exactly when the count of present samples since the last reset has reached the kind's threshold, "
                     "that no stale error is ever shown (after a non-error event never an error; after an error that error) and that a reset event "
                     "forgets the state before it; StreamShapes is the abstraction the recorded traces are validated against and Streams.tla "
                     "checks (ShapeCommutes) that it is a refinement mapping of the valued machines" % nob)
    finish_streams(ctx, summary, total,
                   "Non-trivial = contains a present sample after an event the kind treats as a reset (or, for kinds "
                   "without resets, at least two present samples).")
    ctx.exhaustive = False
