"""C17: spec/Reference.tla, RefThreads.tla, RefThreadsTrace.tla."""
import json, os, concurrent.futures as cf
import vlib
from vlib import cfg_text, run_tlc, tlc_ok, build_harness, run_bin, ToolError
from registry import register, replayer
from p_pure import trace_check

DEFAULT = ["cfg_std", "dimcheck", "devices"]


def ref_cfg(maxlen):
    return cfg_text(constants={"MaxLen": maxlen, "MaxHandles": 4, "Emit": True}, invariants=["Laws", "EmitInv"])


def threads_cfg(n, k, uselock):
    return cfg_text(constants={"N": n, "K": k, "UseLock": uselock}, invariants=["MutualExclusion", "NoLostUpdate"],
                    properties=["Termination"] if uselock else [])


@replayer("reference")
def replay_reference(pid, v):
    out = os.path.join(vlib.OUT, pid)
    os.makedirs(out, exist_ok=True)
    bp = os.path.join(out, "replay_one.ndjson")
    open(bp, "w").write(json.dumps(v["behaviour"]) + "\n")
    bindir = build_harness(["reference"], v.get("features"), v.get("tag", "default"))
    mism, summary, _ = run_bin(bindir, "reference", ["replay", bp, 1])
    return mism[0] if mism else None


@replayer("reference_threads")
def replay_threads(pid, v):
    ctx = vlib.Ctx(pid + "_replay", "quick", 1)
    bindir = build_harness(["reference"])
    ok = trace_check(ctx, "RefThreadsTrace", bindir, "reference", v["record_args"], "threads", "concurrent increments", "reference_threads")
    return None if ok else ctx.violations[0][2]


@replayer("todyn_probe")
def replay_todyn_probe(pid, v):
    import p_lifetimes
    ctx = vlib.Ctx(pid + "_replay", "quick", 1)
    res = p_lifetimes.compile_programs(ctx, [(v["name"], v["source"])], features=tuple(v["features"]), tag=v["tag"], run=True)
    return None if res[v["name"]][0] else res[v["name"]][1]


@register("C17")
def c17(ctx):
    q = ctx.tier == "quick"
    with cf.ThreadPoolExecutor(max_workers=8) as ex:
        fb1 = ex.submit(build_harness, ["reference"], DEFAULT, "default")                        # caller declares no alloc / std features
        fb2 = ex.submit(build_harness, ["reference"], DEFAULT + ["alloc", "std"], "callerfeat")  # caller declares both
        fexh = ex.submit(run_tlc, ctx, "Reference", ref_cfg(4 if q else 5), "handles", 4)
        fsim = ex.submit(run_tlc, ctx, "Reference", ref_cfg(12), "handles_sim", 2, 60 if q else 600, 14)
        locked = [ex.submit(run_tlc, ctx, "RefThreads", threads_cfg(n, k, True), "lock_%d_%d" % (n, k), 2) for n, k in ((2, 2), (3, 2), (2, 3))]
        unlocked = ex.submit(run_tlc, ctx, "RefThreads", threads_cfg(2, 2, False), "nolock_2_2", 1)
        rexh, rsim = tlc_ok(fexh.result()), tlc_ok(fsim.result())
        for f in locked:
            tlc_ok(f.result())
        ru = unlocked.result()
        bin1, bin2 = fb1.result(), fb2.result()
    # non-vacuity: without the lock TLC must find the lost update
    if not any("NoLostUpdate is violated" in e for e in ru["errors"]):
        raise ToolError("RefThreads without the lock did not violate NoLostUpdate: the interleaving model is vacuous")
    ctx.notes.append("self-test: RefThreads with UseLock = FALSE violates NoLostUpdate (as it must)")
    allb = vlib.concat([rexh["behaviours"], rsim["behaviours"]], os.path.join(ctx.out, "behaviours.ndjson"))
    for bindir, feats, tag in ((bin1, DEFAULT, "default"), (bin2, DEFAULT + ["alloc", "std"], "callerfeat")):
        mism, summary, _ = run_bin(bindir, "reference", ["replay", allb, ctx.seed], timeout=300)
        ctx.evaluations += summary.get("replays", 0)
        ctx.extra["replay_summary_" + tag] = summary
        if tag == "default":
            ctx.traces += summary.get("behaviours", 0)
            for k in range(summary.get("nontrivial", 0)):
                ctx.nontrivial.add(k)
        seen = set()
        for m in mism:
            key = (m["variant"], m["what"])
            if key in seen:
                continue
            seen.add(key)
            beh = json.loads(vlib.nth_line(allb, m["line"]))
            op = beh["steps"][m["step"]]["a"]["op"]
            sig = "reference:%s:%s:caller_alloc=%s,caller_std=%s" % (m["variant"], op, m["caller_alloc"], m["caller_std"])
            ctx.violation(sig, {"replay_kind": "reference", "behaviour": beh, "mismatch": m, "features": feats, "tag": tag},
                          "%s behaviour #%d %s step %d: %s; expected %s, got %s" % (
                              m["variant"], m["line"], json.dumps([s["a"] for s in beh["steps"]][:m["step"] + 1]), m["step"], m["what"],
                              json.dumps(m["exp"]), json.dumps(m["got"])))
    for b in vlib.read_ndjson(allb, limit=3000)[::1200]:
        ctx.sample(b)
    # real threads, validated against RefThreadsTrace.tla
    trace_check(ctx, "RefThreadsTrace", bin1, "reference", [ctx.seed, 1000 if q else 10000], "threads",
                "concurrent increments through References built over one shared Arc / lock", "reference_threads", timeout=1500)
    # to_dyn! in calling crates built against rrtk WITHOUT std (alloc only / no features at all): compiled and run
    import p_lifetimes
    base = "use rrtk::*;\ntrait Val { fn get(&self) -> i32; }\nstruct Foo(i32);\nimpl Val for Foo { fn get(&self) -> i32 { self.0 } }\n"
    for feats, tag in ((("alloc",), "probes-alloc"), ((), "probes-nofeat")):
        progs = [("baseline", base + "fn main() { let r = static_reference!(Foo, Foo(7)); assert_eq!(r.borrow().get(), 7); }\n"),
                 ("dyn_ptr", base + "fn main() { let r = static_reference!(Foo, Foo(7)); let d = to_dyn!(Val, r.clone()); r.borrow_mut().0 = 9; assert_eq!(d.borrow().get(), 9); }\n")]
        if "alloc" in feats:
            progs.append(("dyn_rc", base + "fn main() { let r = rc_ref_cell_reference(Foo(7)); let d = to_dyn!(Val, r.clone()); r.borrow_mut().0 = 9; assert_eq!(d.borrow().get(), 9); }\n"))
            # the converted handle must keep the target alive on its own (the payload records its drop; nothing freed is ever read)
            keep = ("use rrtk::*;\nuse core::sync::atomic::{AtomicBool, Ordering};\nstatic DROPPED: AtomicBool = AtomicBool::new(false);\n"
                    "trait Val { fn get(&self) -> i32; }\nstruct Foo(i32);\nimpl Val for Foo { fn get(&self) -> i32 { self.0 } }\n"
                    "impl Drop for Foo { fn drop(&mut self) { DROPPED.store(true, Ordering::SeqCst); } }\n"
                    "fn main() { let r = rc_ref_cell_reference(Foo(7)); let d = to_dyn!(Val, r.clone()); drop(r);\n"
                    "  assert!(!DROPPED.load(Ordering::SeqCst), \"target dropped while the converted Reference is alive\");\n"
                    "  let d2 = to_dyn!(Val, rc_ref_cell_reference(Foo(8)));\n"
                    "  assert!(!DROPPED.load(Ordering::SeqCst), \"target of a converted temporary dropped at once\");\n"
                    "  assert_eq!(d.borrow().get() + d2.borrow().get(), 15); }\n")
            progs.append(("dyn_rc_keeps_alive", keep))
        res = p_lifetimes.compile_programs(ctx, progs, features=feats, tag=tag, run=True)
        ctx.evaluations += len(res)
        if not res["baseline"][0]:
            raise ToolError("baseline probe does not build against rrtk with features %s: %s" % (list(feats), res["baseline"][1]))
        for name, src in progs[1:]:
            if not res[name][0]:
                ctx.violation("reference:to_dyn:%s:rrtk_features=%s" % (name, "+".join(feats) or "none"),
                              {"replay_kind": "todyn_probe", "features": list(feats), "tag": tag, "name": name, "source": src},
                              "to_dyn! does not work in a calling crate when rrtk is built with features [%s] (%s): %s" % (
                                  ", ".join(feats), name, res[name][1]))
    # any number of rounds: the locked model's inductive invariant, discharged symbolically by Apalache (4 threads, K in 1..1000)
    vlib.run_apalache(ctx, "RefThreadsInd", [("base", "Init", "IndInv", 0), ("step", "IndInit", "IndInv", 1), ("implies_safety", "IndInit", "Safety", 0)])
    ctx.notes.append("Apalache: RefThreadsInd.tla (the locked variant of RefThreads.tla with a ghost counter) - Init => IndInv, IndInv /\\ Next => IndInv' and "
                     "IndInv => MutualExclusion /\\ NoLostUpdate established symbolically for 4 threads and every number of rounds K in 1..1000, i.e. for "
                     "histories of any length (TLC explores (threads, rounds) in {(2,2), (3,2), (2,3)})")
    # beyond C17: which borrows of a Reference may coexist within one thread (spec/RefGuards.tla); deviations are EXTRA-DEVIATION notes
    gcfg = cfg_text(constants={"MaxLen": 5 if q else 6, "MaxGuards": 3, "Emit": True}, invariants=["Laws", "EmitInv"])
    rg = tlc_ok(run_tlc(ctx, "RefGuards", gcfg, "guards", 2))
    if rg["n"] == 0:
        raise ToolError("RefGuards emitted no behaviours")
    gbin = build_harness(["guards"], DEFAULT, "default")
    _, gsum, gother = run_bin(gbin, "guards", ["replay", rg["behaviours"]], timeout=600)
    if gsum.get("with_two_readers", 0) == 0:
        raise ToolError("no guard behaviour with two simultaneous readers: the read / write variants are not exercised")
    ctx.extra["guard_discipline"] = gsum
    for l in gother:
        if l.startswith("DEVIATION "):
            d = json.loads(l[10:])
            ctx.beyond_property("RefGuards.tla (borrow discipline within one thread), %s behaviour #%d step %s: %s; specification %s, implementation %s" % (
                d["variant"], d["line"], d["step"], d["what"], json.dumps(d["exp"]), json.dumps(d["got"])))
    ctx.notes.append("beyond C17: RefGuards.tla (which borrows of a Reference may coexist within one thread: RefCell-like panics, several readers "
                     "on the read / write lock variants, one guard on the mutex variants, every guard sees the last write) replayed on the "
                     "real guards: %d behaviours, %d deviations (reported as EXTRA-DEVIATION, not as violations)" % (gsum["behaviours"], gsum["deviations"]))
    ctx.rule = ("handles: six variants x every sequence of {clone, to_dyn, write, read, drop} up to the bound with at most 4 live handles, plus "
                "random sequences of 12; after every operation every live handle is read and the drop counter of the payload inspected; the "
                "harness is built twice, as a calling crate without and with cargo features named alloc / std, so every to_dyn! step runs in "
                "both kinds of caller; small caller programs using to_dyn! are also built and run against rrtk with features [alloc] and with no features. threads: TLC explores all interleavings of lock / read / write / unlock for (threads, increments) in "
                "{(2,2),(3,2),(2,3)} (mutual exclusion, no lost update, termination; the lock-free variant must fail), and real runs of "
                "2, 3-5 and 8 threads x 1e3 (1e4 thorough) increments for the four lock-based variants are validated event by event against "
                "RefThreadsTrace.tla. Non-trivial = a write plus a clone or to_dyn.")
    ctx.assumptions += ["real thread schedules are sampled by the OS scheduler, not enumerated; exhaustive interleaving coverage is at the model level",
                        "to_dyn! on variants the macro does not list (PtrMutex, ArcRwLock, ArcMutex) may refuse (unimplemented!()) or convert; both branches are in the specification and the one the build takes is checked (a converted handle must alias the object and keep it alive)"]
    ctx.exhaustive = False
