#!/usr/bin/env python3
"""coverage_audit.py [ids...]  - vacuity audit of the specifications.

Re-runs every breadth-first TLC configuration that the checks left in /verif/out/<id>/*.cfg with `-coverage 1`,
merges the per-expression evaluation counts over ALL configurations of a module, and lists the expressions of
/verif/spec/*.tla that no configuration ever evaluated (dead text: a law whose antecedent never holds, a case
no scenario reaches).  Writes /verif/coverage/REPORT.md and REPORT.json.  Not part of the registered checks: it is
the audit behind DESIGN.md section 10.6; run it after `lib/run_all.py quick` (or thorough) has populated /verif/out."""
import os, re, sys, json, subprocess, concurrent.futures as cf, collections, shutil, tempfile

VERIF = os.path.dirname(os.path.dirname(os.path.abspath(__file__)))
SPEC = os.path.join(VERIF, "spec")
OUT = os.path.join(VERIF, "out")
TLA_CP = "/opt/veriftools/tla/tla2tools.jar:/opt/veriftools/tla/CommunityModules-deps.jar"
SPAN = re.compile(r"^\s*\|*line (\d+), col (\d+) to line (\d+), col (\d+) of module (\w+): (\d+)")
HEAD = re.compile(r"^<(\w[\w ]*?) line (\d+), col (\d+) to line (\d+), col (\d+) of module (\w+)>(?:: (\d+):(\d+))?")


def jobs(ids):
    for pid in sorted(os.listdir(OUT)):
        if not re.fullmatch(r"C\d\d", pid) or (ids and pid not in ids):
            continue
        d = os.path.join(OUT, pid)
        for f in sorted(os.listdir(d)):
            if not f.endswith(".cfg"):
                continue
            log = os.path.join(d, f[:-4] + ".tlc.log")
            if not os.path.exists(log):
                continue
            head = open(log, errors="replace").read(4000)
            m = re.search(r"Parsing file /\S*/spec/(\w+)\.tla", head)
            if not m or "breadth-first" not in head:
                continue                          # simulations and trace validations are not audited
            if "Trace" in m.group(1):
                continue
            yield pid, f[:-4], m.group(1), os.path.join(d, f)


def run(job):
    pid, name, module, cfg = job
    meta = tempfile.mkdtemp(prefix="cov_", dir=os.path.join(OUT))
    cmd = ["java", "-XX:+UseParallelGC", "-XX:ParallelGCThreads=2", "-Xmx4g", "-Xss512m", "-cp", TLA_CP, "tlc2.TLC", "-workers", "2",
           "-coverage", "1", "-metadir", meta, "-cleanup", "-noGenerateSpecTE", "-config", cfg, module + ".tla"]
    counts = {}
    try:
        p = subprocess.Popen(cmd, cwd=SPEC, stdout=subprocess.PIPE, stderr=subprocess.STDOUT, text=True, bufsize=1 << 20)
        for line in p.stdout:
            if line.startswith('<<"B"'):
                continue
            m = SPAN.match(line)
            if m:
                k = (m.group(5), int(m.group(1)), int(m.group(2)), int(m.group(3)), int(m.group(4)))
                counts[k] = max(counts.get(k, 0), int(m.group(6)))
                continue
            m = HEAD.match(line)
            if m and m.group(7) is not None:
                k = (m.group(6), int(m.group(2)), int(m.group(3)), int(m.group(4)), int(m.group(5)))
                counts[k] = max(counts.get(k, 0), int(m.group(8)))
        p.wait(timeout=3000)
    finally:
        shutil.rmtree(meta, ignore_errors=True)
    return job, counts


def main():
    ids = set(sys.argv[1:])
    js = list(jobs(ids))
    merged = collections.defaultdict(dict)     # module -> span -> max count
    runs = collections.defaultdict(list)
    with cf.ThreadPoolExecutor(max_workers=4) as ex:
        for job, counts in ex.map(run, js):
            pid, name, module, cfg = job
            runs[module].append("%s/%s" % (pid, name))
            for k, v in counts.items():
                merged[k[0]][k] = max(merged[k[0]].get(k, 0), v)
            print("[coverage] %s/%s (%s): %d spans" % (pid, name, module, len(counts)), flush=True)
    report = {}
    for module, spans in sorted(merged.items()):
        path = os.path.join(SPEC, module + ".tla")
        if not os.path.exists(path):
            continue                              # standard / community modules
        src = open(path).read().splitlines()
        zero = sorted(k for k, v in spans.items() if v == 0)
        # keep only the outermost zero spans (a zero span inside another zero span adds nothing)
        outer = []
        for k in zero:
            if any(o != k and (o[1], o[2]) <= (k[1], k[2]) and (k[3], k[4]) <= (o[3], o[4]) for o in zero):
                continue
            outer.append(k)
        report[module] = {"spans": len(spans), "never_evaluated": [
            {"from": [k[1], k[2]], "to": [k[3], k[4]], "text": (src[k[1] - 1][k[2] - 1:k[4]] if k[1] == k[3] else src[k[1] - 1][k[2] - 1:] + " ...")[:160]}
            for k in outer], "runs": sorted(set(runs.get(module, [])))}
    os.makedirs(os.path.join(VERIF, "coverage"), exist_ok=True)
    json.dump(report, open(os.path.join(VERIF, "coverage", "REPORT.json"), "w"), indent=1)
    with open(os.path.join(VERIF, "coverage", "REPORT.md"), "w") as f:
        f.write("# Specification coverage audit (TLC -coverage 1, merged over all breadth-first configurations)\n\n")
        for module, r in report.items():
            f.write("## %s: %d expressions, %d never evaluated\n" % (module, r["spans"], len(r["never_evaluated"])))
            for z in r["never_evaluated"]:
                f.write("- line %d col %d: `%s`\n" % (z["from"][0], z["from"][1], z["text"].replace("`", "'")))
            f.write("\n")
    print("[coverage] report in /verif/coverage/REPORT.md")


if __name__ == "__main__":
    main()
