"""C02 (stateless combinators; also the scratch-slot clause of C16 and the stream-level clause of C03): spec/Combinators.tla."""
import json, os, concurrent.futures as cf
import vlib
from vlib import cfg_text, run_tlc, tlc_ok, build_harness, run_bin, ToolError
from registry import register, replayer

ALL_COMBS = ["SumN", "ProductN", "Latest", "Sum2", "Product2", "Difference", "Quotient", "Exponent", "Expirer", "If", "IfElse",
             "NoneToError", "NoneToValue", "And", "Or", "Not", "NoneGetter", "ConstantGetter"]


def comb_cfg(combs, maxarity, wide):
    return cfg_text(constants={"Combs": set(combs), "MaxArity": maxarity, "Wide": wide, "Emit": True}, invariants=["Laws", "EmitInv"])


def run_combinators(ctx, jobs, times_only=False):
    with cf.ThreadPoolExecutor(max_workers=4) as ex:
        fb = ex.submit(build_harness, ["combinators"])
        futs = [ex.submit(run_tlc, ctx, "Combinators", cfg, name, 4) for name, cfg in jobs]
        results = [tlc_ok(f.result()) for f in futs]
        bindir = fb.result()
    allb = vlib.concat([r["behaviours"] for r in results], os.path.join(ctx.out, "cases.ndjson"))
    if sum(r["n"] for r in results) == 0:
        raise ToolError("TLC emitted no cases (vacuous run)")
    mism, summary, _ = run_bin(bindir, "combinators", ["replay", allb, ctx.seed] + (["--times-only"] if times_only else []), timeout=1200)
    ctx.evaluations += summary.get("replays", 0)
    ctx.traces += summary.get("behaviours", 0)
    ctx.extra["replay_summary"] = summary
    for k in range(summary.get("nontrivial", 0)):
        ctx.nontrivial.add(k)
    for b in vlib.read_ndjson(allb, limit=4000)[::1300]:
        ctx.sample(b)
    seen = set()
    for m in mism:
        if m["line"] in seen:
            continue
        seen.add(m["line"])
        case = json.loads(vlib.nth_line(allb, m["line"]))
        ctx.violation("%s:%s" % (m["comb"], m["what"]), {"replay_kind": "combinators", "case": case, "mismatch": m, "seed": ctx.seed, "times_only": times_only},
                      "%s case #%d %s: %s; specification predicts %s, implementation returned %s (input values %s, timestamp map %s)" % (
                          m["comb"], m["line"], json.dumps(case["case"]), m["what"], json.dumps(m["exp"]), json.dumps(m["got"]),
                          m["vals"][1:6], m["map"]))
    return summary


@replayer("combinators")
def replay_comb(pid, v):
    out = os.path.join(vlib.OUT, pid)
    os.makedirs(out, exist_ok=True)
    bp = os.path.join(out, "replay_one.ndjson")
    open(bp, "w").write(json.dumps(v["case"]) + "\n")
    bindir = build_harness(["combinators"])
    mism, summary, _ = run_bin(bindir, "combinators", ["replay", bp, v.get("seed", 1)] + (["--times-only"] if v.get("times_only") else []))
    return mism[0] if mism else None


@register("C02")
def c02(ctx):
    q = ctx.tier == "quick"
    jobs = [("wide", comb_cfg(ALL_COMBS, 4 if q else 5, True)),
            ("narrow", comb_cfg(["SumN", "ProductN", "Latest"], 6 if q else 8, False))]
    run_combinators(ctx, jobs)
    ctx.rule = ("Every assignment of {Err1, Err2, Absent, Some(t)} (t over 3 ranks; Booleans Some(true/false)) to the inputs of each of the 18 "
                "stateless getters, arities 1..5 (1..8 with the reduced outcome set {Err1, Absent, Some}), clock outcomes and age <,=,> limit for "
                "the expirer; TLC checks table = Kleene logic, De Morgan duality, Sum2/Product2 = n-ary, timestamp and slot laws on each case "
                "and prints the predicted outcome; the harness wires the real stream to scripted getters under 4-6 monotone timestamp maps x 2 "
                "random value bindings, calls get() twice and compares category, error identity, timestamp and value bits. "
                "Non-trivial = mixed present/absent/error inputs or a condition/clock input.")
    ctx.assumptions += ["values are identifiers in the specification; the harness evaluates the predicted term with plain f32 operators on random "
                        "finite values and compares bit for bit (Exponent: the host's f32::powf, which is what the std build of rrtk calls)"]
    ctx.exhaustive = True


def run_datum(ctx, jobs):
    with cf.ThreadPoolExecutor(max_workers=4) as ex:
        fb = ex.submit(build_harness, ["datum"])
        futs = [ex.submit(run_tlc, ctx, "Datum", cfg, name, 4, sim[0] if sim else None, sim[1] if sim else None) for name, cfg, sim in jobs]
        results = [tlc_ok(f.result()) for f in futs]
        bindir = fb.result()
    allb = vlib.concat([r["behaviours"] for r in results], os.path.join(ctx.out, "datum.ndjson"))
    if sum(r["n"] for r in results) == 0:
        raise ToolError("TLC emitted no behaviours (vacuous run)")
    mism, summary, _ = run_bin(bindir, "datum", ["replay", allb, ctx.seed], timeout=1200)
    ctx.evaluations += summary.get("replays", 0)
    ctx.traces += summary.get("behaviours", 0)
    ctx.extra["datum_replay_summary"] = summary
    base = len(ctx.nontrivial)
    for k in range(summary.get("nontrivial", 0)):
        ctx.nontrivial.add(("datum", k))
    for b in vlib.read_ndjson(allb, limit=1200)[::500]:
        ctx.sample(b)
    seen = set()
    for m in mism:
        if m["line"] in seen:
            continue
        seen.add(m["line"])
        beh = json.loads(vlib.nth_line(allb, m["line"]))
        ctx.violation("datum:%s:%s" % (m["payload"], m["what"]), {"replay_kind": "datum", "behaviour": beh, "mismatch": m, "seed": ctx.seed},
                      "Datum<%s> behaviour #%d step %d %s: %s; specification predicts %s, implementation gave %s (rank->time map %s)" % (
                          m["payload"], m["line"], m["step"], json.dumps(beh["steps"][m["step"]]), m["what"], json.dumps(m["exp"]),
                          json.dumps(m["got"]), m["map"][1:]))


@replayer("datum")
def replay_datum(pid, v):
    out = os.path.join(vlib.OUT, pid)
    os.makedirs(out, exist_ok=True)
    bp = os.path.join(out, "replay_one.ndjson")
    open(bp, "w").write(json.dumps(v["behaviour"]) + "\n")
    bindir = build_harness(["datum"])
    mism, summary, _ = run_bin(bindir, "datum", ["replay", bp, v.get("seed", 1)])
    return mism[0] if mism else None


@register("C03")
def c03(ctx):
    import p_devices
    q = ctx.tier == "quick"
    dcfg = lambda n: cfg_text(constants={"MaxLen": n, "Emit": True}, invariants=["EmitInv"], properties=["StepLaw"])
    run_datum(ctx, [("datum1", dcfg(1), None), ("datumsim", dcfg(3 if q else 6), (150 if q else 1500, 8))])
    # stream level: arithmetic, logic and newest-of streams (timestamps only)
    run_combinators(ctx, [("streams", comb_cfg(["SumN", "ProductN", "Latest", "Sum2", "Product2", "Difference", "Quotient", "Exponent", "And", "Or", "Not"],
                                               3 if q else 4, True))], times_only=True)
    # terminal and device level: state averaging, command selection, device updates (timestamps only)
    jobs = [("dev_single", p_devices.dev_cfg("single", ["invert", "gear", "axle", "diff"], 3, rich=False), 4, None),
            ("dev_data2", p_devices.dev_cfg("matchdata", [], 2, nt=2), 2, None),
            ("dev_data3", p_devices.dev_cfg("matchdata", [], 1, nt=3), 2, None)]
    if not q:
        jobs.append(("dev_sim", p_devices.dev_cfg("single", ["invert", "gear", "axle", "diff"], 12, rich=True), 2, (800, 14)))
    p_devices.run_devices(ctx, jobs, 1 if q else 4, observe="times")
    ctx.rule = ("(1) Datum.tla: every operator form of Datum<T> for T in {f32, Quantity, State, Command, bool} x every pair of timestamp ranks "
                "(5 ranks, mapped to i64 by 5-6 monotone maps including {MIN, MIN+1, -1, 0, MAX}), the replace helpers and latest(), plus "
                "random chains of forms; (2) Combinators.tla: result timestamps of the arithmetic, logic and newest-of streams; "
                "(3) Devices.tla: timestamps of terminal state averaging, command selection, combined reads and device updates. "
                "Only presence and timestamps are compared in (2) and (3). Non-trivial = the two operands carry different timestamps / "
                "mixed inputs / an update after a write.")
    ctx.assumptions += ["timestamps are ranks in the specifications; every strictly monotone map to i64 is a sound concretisation"]
    ctx.exhaustive = False
