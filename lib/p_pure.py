"""C02 (stateless combinators; also the scratch-slot clause of C16 and the stream-level clause of C03): spec/Combinators.tla."""
import json, os, concurrent.futures as cf
import vlib
from vlib import cfg_text, run_tlc, tlc_ok, build_harness, run_bin, ToolError
from registry import register, replayer

ALL_COMBS = ["SumN", "ProductN", "Latest", "Sum2", "Product2", "Difference", "Quotient", "Exponent", "Expirer", "If", "IfElse",
             "NoneToError", "NoneToValue", "And", "Or", "Not", "NoneGetter", "ConstantGetter"]


def comb_cfg(combs, maxarity, wide):
    return cfg_text(constants={"Combs": set(combs), "MaxArity": maxarity, "Wide": wide, "Emit": True}, invariants=["Laws", "EmitInv"])


def run_combinators(ctx, jobs, times_only=False, only_if=None):
    """only_if(mismatch) -> bool: report a mismatch under this property only when the predicate holds (C16: signs of an uninitialised read)"""
    with cf.ThreadPoolExecutor(max_workers=4) as ex:
        fb = ex.submit(build_harness, ["combinators"])
        futs = [ex.submit(run_tlc, ctx, "Combinators", cfg, name, 4) for name, cfg in jobs]
        results = [tlc_ok(f.result()) for f in futs]
        bindir = fb.result()
    allb = vlib.concat([r["behaviours"] for r in results], os.path.join(ctx.out, "cases.ndjson"))
    if sum(r["n"] for r in results) == 0:
        raise ToolError("TLC emitted no cases (vacuous run)")
    mism, summary, _ = vlib.run_bin_checked_too("combinators", ["replay", allb, ctx.seed] + (["--times-only"] if times_only else []), timeout=1200)
    ctx.evaluations += summary.get("replays", 0)
    ctx.traces += summary.get("behaviours", 0)
    ctx.extra["replay_summary"] = summary
    for k in range(summary.get("nontrivial", 0)):
        ctx.nontrivial.add(k)
    for b in vlib.read_ndjson(allb, limit=4000)[::1300]:
        ctx.sample(b)
    seen = set()
    for m in mism:
        if m["line"] in seen:
            continue
        seen.add(m["line"])
        if only_if is not None and not only_if(m):
            ctx.extra["mismatches_left_to_other_properties"] = ctx.extra.get("mismatches_left_to_other_properties", 0) + 1
            continue
        case = json.loads(vlib.nth_line(allb, m["line"]))
        ctx.violation("%s:%s" % (m["comb"], m["what"]), {"replay_kind": "combinators", "case": case, "mismatch": m, "seed": ctx.seed, "times_only": times_only},
                      "%s case #%d %s: %s; specification predicts %s, implementation returned %s (input values %s, timestamp map %s)" % (
                          m["comb"], m["line"], json.dumps(case["case"]), m["what"], json.dumps(m["exp"]), json.dumps(m["got"]),
                          m["vals"][1:6], m["map"]))
    return summary


@replayer("combinators")
def replay_comb(pid, v):
    out = os.path.join(vlib.OUT, pid)
    os.makedirs(out, exist_ok=True)
    bp = os.path.join(out, "replay_one.ndjson")
    open(bp, "w").write(json.dumps(v["case"]) + "\n")
    bindir = build_harness(["combinators"], v.get("features"), v.get("tag", "default"), checked=bool(v.get("mismatch", {}).get("build")))
    mism, summary, _ = run_bin(bindir, "combinators", ["replay", bp, v.get("seed", 1)] + (["--times-only"] if v.get("times_only") else []))
    return mism[0] if mism else None


@register("C02")
def c02(ctx):
    q = ctx.tier == "quick"
    jobs = [("wide", comb_cfg(ALL_COMBS, 4 if q else 5, True)),
            ("narrow", comb_cfg(["SumN", "ProductN", "Latest"], 6 if q else 8, False))]
    run_combinators(ctx, jobs)
    # the exponent stream uses the power function of the build: replay the cases under the no_std float back ends as well
    import p_config
    wide = os.path.join(ctx.out, "wide.ndjson")
    for tag in ("libm_check", "micromath_check"):
        bindir = build_harness(["combinators"], p_config.CONFIGS[tag][0], tag)
        mism, summary, _ = run_bin(bindir, "combinators", ["replay", wide, ctx.seed], timeout=600)
        ctx.evaluations += summary.get("replays", 0)
        ctx.extra["replay_summary_" + tag] = summary
        for m in mism[:10]:
            case = json.loads(vlib.nth_line(wide, m["line"]))
            ctx.violation("%s:%s:%s" % (m["comb"], m["what"], tag), {"replay_kind": "combinators", "case": case, "mismatch": m, "seed": ctx.seed,
                                                                  "features": p_config.CONFIGS[tag][0], "tag": tag},
                          "[%s build] %s case #%d %s: %s; specification predicts %s, implementation returned %s" % (
                              tag, m["comb"], m["line"], json.dumps(case["case"]), m["what"], json.dumps(m["exp"]), json.dumps(m["got"])))
    ctx.rule = ("Every assignment of {Err1, Err2, Absent, Some(t)} (t over 3 ranks; Booleans Some(true/false)) to the inputs of each of the 18 "
                "stateless getters, arities 1..5 (1..8 with the reduced outcome set {Err1, Absent, Some}), clock outcomes and age <,=,> limit for "
                "the expirer; TLC checks table = Kleene logic, De Morgan duality, Sum2/Product2 = n-ary, timestamp and slot laws on each case "
                "and prints the predicted outcome; the harness wires the real stream to scripted getters under 4-6 monotone timestamp maps x 2 "
                "random value bindings, calls get() twice and compares category, error identity, timestamp and value bits. "
                "Non-trivial = mixed present/absent/error inputs or a condition/clock input.")
    ctx.assumptions += ["values are identifiers in the specification; the harness evaluates the predicted term with plain f32 operators on random "
                        "finite values and compares bit for bit (Exponent: the host's f32::powf, which is what the std build of rrtk calls)"]
    ctx.exhaustive = True


def run_datum(ctx, jobs):
    with cf.ThreadPoolExecutor(max_workers=4) as ex:
        fb = ex.submit(build_harness, ["datum"])
        futs = [ex.submit(run_tlc, ctx, "Datum", cfg, name, 4, sim[0] if sim else None, sim[1] if sim else None) for name, cfg, sim in jobs]
        results = [tlc_ok(f.result()) for f in futs]
        bindir = fb.result()
    allb = vlib.concat([r["behaviours"] for r in results], os.path.join(ctx.out, "datum.ndjson"))
    if sum(r["n"] for r in results) == 0:
        raise ToolError("TLC emitted no behaviours (vacuous run)")
    mism, summary, _ = run_bin(bindir, "datum", ["replay", allb, ctx.seed], timeout=1200)
    ctx.evaluations += summary.get("replays", 0)
    ctx.traces += summary.get("behaviours", 0)
    ctx.extra["datum_replay_summary"] = summary
    base = len(ctx.nontrivial)
    for k in range(summary.get("nontrivial", 0)):
        ctx.nontrivial.add(("datum", k))
    for b in vlib.read_ndjson(allb, limit=1200)[::500]:
        ctx.sample(b)
    seen = set()
    for m in mism:
        if m["line"] in seen:
            continue
        seen.add(m["line"])
        beh = json.loads(vlib.nth_line(allb, m["line"]))
        ctx.violation("datum:%s:%s" % (m["payload"], m["what"]), {"replay_kind": "datum", "behaviour": beh, "mismatch": m, "seed": ctx.seed},
                      "Datum<%s> behaviour #%d step %d %s: %s; specification predicts %s, implementation gave %s (rank->time map %s)" % (
                          m["payload"], m["line"], m["step"], json.dumps(beh["steps"][m["step"]]), m["what"], json.dumps(m["exp"]),
                          json.dumps(m["got"]), m["map"][1:]))


@replayer("datum")
def replay_datum(pid, v):
    out = os.path.join(vlib.OUT, pid)
    os.makedirs(out, exist_ok=True)
    bp = os.path.join(out, "replay_one.ndjson")
    open(bp, "w").write(json.dumps(v["behaviour"]) + "\n")
    bindir = build_harness(["datum"])
    mism, summary, _ = run_bin(bindir, "datum", ["replay", bp, v.get("seed", 1)])
    return mism[0] if mism else None


@register("C03")
def c03(ctx):
    import p_devices
    q = ctx.tier == "quick"
    dcfg = lambda n: cfg_text(constants={"MaxLen": n, "Emit": True}, invariants=["EmitInv"], properties=["StepLaw"])
    run_datum(ctx, [("datum1", dcfg(1), None), ("datumsim", dcfg(3 if q else 6), (150 if q else 1500, 8))])
    # stream level: arithmetic, logic and newest-of streams (timestamps only)
    run_combinators(ctx, [("streams", comb_cfg(["SumN", "ProductN", "Latest", "Sum2", "Product2", "Difference", "Quotient", "Exponent", "And", "Or", "Not"],
                                               3 if q else 4, True))], times_only=True)
    # terminal and device level: state averaging, command selection, device updates (timestamps only)
    jobs = [("dev_single", p_devices.dev_cfg("single", ["invert", "gear", "axle", "diff"], 3, rich=False), 4, None),
            ("dev_data2", p_devices.dev_cfg("matchdata", [], 1, nt=2), 2, None),        # one connect on fresh terminals: re-linking is C09's business
            ("dev_data3", p_devices.dev_cfg("matchdata", [], 1, nt=3), 2, None)]
    if not q:
        jobs.append(("dev_sim", p_devices.dev_cfg("single", ["invert", "gear", "axle", "diff"], 12, rich=True), 2, (800, 14)))
    p_devices.run_devices(ctx, jobs, 1 if q else 4, observe="times")
    ctx.rule = ("(1) Datum.tla: every operator form of Datum<T> for T in {f32, Quantity, State, Command, bool} x every pair of timestamp ranks "
                "(5 ranks, mapped to i64 by 5-6 monotone maps including {MIN, MIN+1, -1, 0, MAX}), the replace helpers and latest(), plus "
                "random chains of forms; (2) Combinators.tla: result timestamps of the arithmetic, logic and newest-of streams; "
                "(3) Devices.tla: timestamps of terminal state averaging, command selection, combined reads and device updates. "
                "Only presence and timestamps are compared in (2) and (3). Non-trivial = the two operands carry different timestamps / "
                "mixed inputs / an update after a write.")
    ctx.assumptions += ["timestamps are ranks in the specifications; every strictly monotone map to i64 is a sound concretisation"]
    ctx.exhaustive = False


def units_cfg(family, dimcheck=True, maxlen=12):
    return cfg_text(constants={"Family": family, "DimCheck": dimcheck, "MaxLen": maxlen, "Emit": True},
                    invariants=["Laws", "EmitInv"], constraints=["WalkBound"])


def run_units(ctx, dimcheck=True, walks=300, features=None, tag="default"):
    with cf.ThreadPoolExecutor(max_workers=4) as ex:
        fb = ex.submit(build_harness, ["units"], features, tag)
        futs = [ex.submit(run_tlc, ctx, "Units", units_cfg("grid", dimcheck), "grid", 4),
                ex.submit(run_tlc, ctx, "Units", units_cfg("names", dimcheck), "names", 1),
                ex.submit(run_tlc, ctx, "Units", units_cfg("walk", dimcheck), "walk", 2, walks, 14)]
        results = [tlc_ok(f.result()) for f in futs]
        bindir = fb.result()
    allb = vlib.concat([r["behaviours"] for r in results], os.path.join(ctx.out, "units.ndjson"))
    if min(r["n"] for r in results) == 0:
        raise ToolError("TLC emitted no cases for one of the families (vacuous run)")
    mism, summary, other = run_bin(bindir, "units", ["replay", allb, ctx.seed], timeout=1200)
    ctx.evaluations += summary.get("replays", 0)
    ctx.traces += summary.get("behaviours", 0)
    ctx.extra["units_replay_summary"] = summary
    ctx.notes += [l for l in other if l.startswith("NOTE")]
    for k in range(summary.get("nontrivial", 0)):
        ctx.nontrivial.add(("units", k))
    lines = vlib.read_ndjson(allb, limit=57000)
    for b in (lines[100], lines[30000], lines[-1]):
        ctx.sample(b)
    for m in mism[:60]:
        rec = json.loads(vlib.nth_line(allb, m["line"]))
        c = rec.get("case", {})
        sig = "units:%s:%s:%s" % (m["family"], c.get("form", "walk"), "%s-%s" % (c.get("l", {}).get("k", ""), c.get("r", {}).get("k", "")))
        ctx.violation(sig, {"replay_kind": "units", "case": rec, "mismatch": m, "seed": ctx.seed, "features": features, "tag": tag},
                      "%s case #%d %s: %s; specification predicts %s, implementation gave %s" % (
                          m["family"], m["line"], json.dumps(c or rec.get("steps")), m["what"], json.dumps(m["exp"]), json.dumps(m["got"])))
    return summary


@replayer("units")
def replay_units(pid, v):
    out = os.path.join(vlib.OUT, pid)
    os.makedirs(out, exist_ok=True)
    bp = os.path.join(out, "replay_one.ndjson")
    open(bp, "w").write(json.dumps(v["case"]) + "\n")
    bindir = build_harness(["units"], v.get("features"), v.get("tag", "default"))
    mism, summary, _ = run_bin(bindir, "units", ["replay", bp, v.get("seed", 1)])
    return mism[0] if mism else None


@register("C01")
def c01(ctx):
    q = ctx.tier == "quick"
    run_units(ctx, True, 300 if q else 5000)
    ctx.rule = ("grid: every operator form of the three documentation tables that yields a Quantity or a Unit (binary, assign, unary, orderings, "
                "==; Quantity, bare Unit, Time and DimensionlessInteger operands) x every ordered pair of the 49 grid units (~56 000 cases), "
                "each executed 3 times on random finite values, unit compared with the prediction, panic <=> predicted, value bits compared "
                "with the plain f32 operator; names: the 49 constants against the documented grammar and the PositionDerivative / Command / "
                "MotionProfilePiece conversions over all 49 units; walk: random chains of 12 operations with exponents up to |60| on a Quantity "
                "and a bare Unit in lock-step. Non-trivial = operands with different units (grid), every name/walk case.")
    ctx.assumptions += ["dimension checking compiled in (harness feature dimcheck = rrtk/dim_check_release)",
                        "Time operands |t| < 4e12 ns, integer operands |n| < 1e5 (value clause; exact integer arithmetic is C18's)"]
    ctx.exhaustive = True


CORRUPTIONS = {      # one recorded field changed: the trace specification must then reject the trace (the binding is real)
    "StreamsTrace": ('"out":{"c":"some"', '"out":{"c":"none"'),
    "DevicesTrace": ('"hasState":true', '"hasState":false'),
    "TimeIntTrace": ('"unit_ok":true', '"unit_ok":false'),
    "ProfileTrace": ('"hasAcc":true', '"hasAcc":false'),
    "NumTrace": ('"bound":1000000', '"bound":-5'),
    "ProfileNumTrace": ('"piece":2', '"piece":3'),
    "RefThreadsTrace": ('"k":"inc","new":', '"k":"inc","new":9'),
}


def selftest_trace(ctx, module, tp, name, constants, timeout):
    """corrupt one field of an accepted trace, and drop one event of it: TLC must reject both"""
    lines = open(tp).read().splitlines()
    old, new = CORRUPTIONS[module]
    idx = [i for i, l in enumerate(lines) if old in l.replace(" ", "")]
    if not idx:
        ctx.notes.append("self-test of %s skipped: no line to corrupt" % module)
        return
    k = idx[len(idx) // 2]
    bad = list(lines)
    bad[k] = bad[k].replace(" ", "").replace(old, new, 1)
    variants = [("corrupt", bad)]
    if module == "RefThreadsTrace":
        variants.append(("dropped", lines[:k] + lines[k + 1:]))
    for label, content in variants:
        bp = os.path.join(ctx.out, "%s.%s.ndjson" % (name, label))
        open(bp, "w").write("\n".join(content) + "\n")
        before = (ctx.states, ctx.transitions)
        info = vlib.validate_trace(ctx, module, bp, name + "_" + label, constants=constants, timeout=timeout)
        ctx.states, ctx.transitions = before           # self-test runs do not count as coverage
        if info["accepted"]:
            raise ToolError("self-test failed: %s accepted a trace with one corrupted field / dropped event (%s): the trace specification does not constrain it" % (module, bp))
    ctx.notes.append("self-test: %s rejects the recorded trace when one field is corrupted (line %d)" % (module, k + 1))


def trace_check(ctx, module, bindir, binname, rec_args, name, what, replay_kind, timeout=900, constants=None):
    """record a trace from the real code and let TLC validate it against spec/<module>.tla"""
    tp = os.path.join(ctx.out, name + ".trace.ndjson")
    run_bin(bindir, binname, ["record", tp] + rec_args, timeout=timeout)
    info = vlib.validate_trace(ctx, module, tp, name, constants=constants, timeout=timeout)
    ctx.evaluations += info["events"]
    if info["accepted"]:
        ctx.traces += 1
        ctx.extra.setdefault("traces", []).append({"module": module, "events": info["events"], "accepted": True})
        if module in CORRUPTIONS and not ctx.pid.endswith("_replay"):
            selftest_trace(ctx, module, tp, name, constants, timeout)
        return True
    unmatched = [m for m in info["msgs"] if "first unmatched event" in m]
    if not unmatched:
        raise ToolError("trace validation of %s failed without identifying an event: %s" % (tp, " | ".join(info["errors"][:8])))
    keep = os.path.join(ctx.out, name + ".rejected.ndjson")
    import shutil
    shutil.copy(tp, keep)
    ctx.violation("%s:trace" % module, {"replay_kind": replay_kind, "trace": keep, "record_args": rec_args, "constants": constants or {}, "first_unmatched": unmatched[0]},
                  "%s: the trace recorded from the implementation is not a behaviour of %s.tla; %s" % (what, module, unmatched[0][:500]))
    return False


@replayer("kin_numtrace")
def replay_kin_numtrace(pid, v):
    ctx = vlib.Ctx(pid + "_replay", "quick", 1)
    ok = trace_check(ctx, "NumTrace", build_harness(["kin"]), "kin", v["record_args"], "update_floats", "State::update on arbitrary floats", "kin_numtrace")
    return None if ok else ctx.violations[0][2]


@replayer("timeint_cases")
def replay_ti(pid, v):
    out = os.path.join(vlib.OUT, pid)
    os.makedirs(out, exist_ok=True)
    bp = os.path.join(out, "replay_one.ndjson")
    open(bp, "w").write(json.dumps(v["case"]) + "\n")
    bindir = build_harness(["timeint"])
    mism, summary, _ = run_bin(bindir, "timeint", ["replay", bp, v.get("seed", 1)])
    return mism[0] if mism else None


@replayer("timeint_trace")
def replay_ti_trace(pid, v):
    ctx = vlib.Ctx(pid + "_replay", "quick", 1)
    bindir = build_harness(["timeint"])
    ok = trace_check(ctx, "TimeIntTrace", bindir, "timeint", v["record_args"], "conv", "Time <-> Quantity conversions", "timeint_trace")
    return None if ok else ctx.violations[0][2]


def ti_cfg(family, dimcheck=True):
    return cfg_text(constants={"Family": family, "DimCheck": dimcheck, "Emit": True}, invariants=["Laws", "EmitInv"])


@register("C18")
def c18(ctx):
    q = ctx.tier == "quick"
    with cf.ThreadPoolExecutor(max_workers=4) as ex:
        fb = ex.submit(build_harness, ["timeint"])
        futs = [ex.submit(run_tlc, ctx, "TimeInt", ti_cfg(f), f, 2) for f in ("int", "mixed", "conv")]
        results = [tlc_ok(f.result()) for f in futs]
        bindir = fb.result()
    allb = vlib.concat([r["behaviours"] for r in results], os.path.join(ctx.out, "cases.ndjson"))
    if min(r["n"] for r in results) == 0:
        raise ToolError("TLC emitted no cases for one of the families")
    mism, summary, _ = run_bin(bindir, "timeint", ["replay", allb, ctx.seed], timeout=1200)
    ctx.evaluations += summary.get("replays", 0)
    ctx.traces += summary.get("behaviours", 0)
    ctx.extra["replay_summary"] = summary
    for k in range(summary.get("nontrivial", 0)):
        ctx.nontrivial.add(k)
    lines = vlib.read_ndjson(allb)
    for b in (lines[5000], lines[-700], lines[-100]):
        ctx.sample(b)
    for m in mism[:40]:
        rec = lines[m["line"]]
        c = rec["case"]
        ctx.violation("timeint:%s:%s:%s-%s" % (m["family"], c.get("form"), c.get("lk", ""), c.get("rk", "")),
                      {"replay_kind": "timeint_cases", "case": rec, "mismatch": m, "seed": ctx.seed},
                      "%s case #%d %s: %s; specification predicts %s, implementation gave %s" % (
                          m["family"], m["line"], json.dumps(c), m["what"], json.dumps(m["exp"]), json.dumps(m["got"])))
    # impl -> spec: arbitrary 64-bit times and f32 seconds, validated by TLC against the conversion relation
    trace_check(ctx, "TimeIntTrace", bindir, "timeint", [ctx.seed, 6400 if q else 64000], "conv",
                "Time <-> Quantity conversions", "timeint_trace")
    ctx.rule = ("int: every integral operator form x operand pairs in -12..12, each executed under 9+ power-of-two scalings up to 2^58 "
                "(homomorphic concretisation); mixed: every mixed form x 49 units, 4 random value bindings, compared with the Quantity "
                "operator after conversion; conv: exact sub-domain both directions and refusal of the 48 other units; trace: sorted batches "
                "of random i64 times stratified over magnitudes 0..2^62 and random f32 seconds, validated event by event by TLC against "
                "TimeIntTrace.tla (2-ulp, monotonicity, round-trip and truncation bounds as integer inequalities). "
                "Non-trivial = both operands non-zero / every mixed, conv case.")
    ctx.assumptions += ["the recorder computes the correctly rounded reference quotient and the error bounds in exact 128-bit integer arithmetic "
                        "(the observer is trusted for that arithmetic; TLC evaluates the inequalities)"]
    ctx.exhaustive = False


KIN_FAMILIES = ("update", "setter", "cmd", "arith", "chain")


def run_kin(ctx, dimcheck=True, features=None, tag="default"):
    cfg = lambda f: cfg_text(constants={"Family": f, "DimCheck": dimcheck, "Emit": True}, invariants=["Laws", "EmitInv"])
    with cf.ThreadPoolExecutor(max_workers=5) as ex:
        fb = ex.submit(build_harness, ["kin"], features, tag)
        futs = [ex.submit(run_tlc, ctx, "Kinematics", cfg(f), f, 1) for f in KIN_FAMILIES]
        results = [tlc_ok(f.result()) for f in futs]
        bindir = fb.result()
    allb = vlib.concat([r["behaviours"] for r in results], os.path.join(ctx.out, "kin.ndjson"))
    if min(r["n"] for r in results) == 0:
        raise ToolError("TLC emitted no cases for one of the families")
    mism, summary, _ = run_bin(bindir, "kin", ["replay", allb, ctx.seed], timeout=1200)
    ctx.evaluations += summary.get("replays", 0)
    ctx.traces += summary.get("behaviours", 0)
    ctx.extra["kin_replay_summary"] = summary
    for k in range(summary.get("nontrivial", 0)):
        ctx.nontrivial.add(("kin", k))
    lines = vlib.read_ndjson(allb)
    for b in (lines[17], lines[400], lines[-300], lines[-1]):
        ctx.sample(b)
    for m in mism[:40]:
        rec = lines[m["line"]]
        c = rec["case"]
        ctx.violation("kin:%s:%s" % (m["family"], m["what"].split(" (")[0]),
                      {"replay_kind": "kin", "case": rec, "mismatch": m, "seed": ctx.seed, "features": features, "tag": tag},
                      "%s case #%d %s: %s; specification predicts %s, implementation gave %s (concretisation %s)" % (
                          m["family"], m["line"], json.dumps(c), m["what"], json.dumps(m["exp"]), json.dumps(m["got"]), json.dumps(m["conc"])))
    return summary


@replayer("kin")
def replay_kin(pid, v):
    out = os.path.join(vlib.OUT, pid)
    os.makedirs(out, exist_ok=True)
    bp = os.path.join(out, "replay_one.ndjson")
    open(bp, "w").write(json.dumps(v["case"]) + "\n")
    bindir = build_harness(["kin"], v.get("features"), v.get("tag", "default"))
    mism, summary, _ = run_bin(bindir, "kin", ["replay", bp, v.get("seed", 1)])
    return mism[0] if mism else None


@register("C14")
def c14(ctx):
    bindir = build_harness(["kin"])
    run_kin(ctx)
    # arbitrary floats and arbitrary (odd) nanosecond intervals: State::update against the textbook formula in f64, compared by TLC
    trace_check(ctx, "NumTrace", bindir, "kin", [ctx.seed, 4000 if ctx.tier == "quick" else 100000], "update_floats",
                "State::update on arbitrary floats and nanosecond intervals", "kin_numtrace")
    # without dimension checking nothing is rejected, and commands of different kinds still must not be added
    import p_config
    run_kin(ctx, dimcheck=False, features=p_config.CONFIGS["std_nocheck"][0], tag="std_nocheck")
    ctx.rule = ("update: all 64 state triples over {-2,0,1,3} x dt in {-4,-1,0,1,2} ticks; setter: 5 states x 3 setters x 49 units (and raw "
                "forms) x 2 values; cmd: command-from-state for all 64 triples, accessors / conversions / round trips for 3 kinds x 4 values, "
                "State::new with one wrongly dimensioned argument over the 49 units; arith: state and command operators with their assign "
                "forms, 3x3 kind pairs for the panicking add/sub; chain: setter -> update -> command-from-state. Each case runs under 7 "
                "concretisations (tick 1/8 s .. 16 s by rescaling velocity and acceleration; value scales 2^-140 .. 2^60 so that tiny and "
                "subnormal derivatives still count as non-zero). TLC checks the textbook form, identity at dt = 0 and reversibility. "
                "impl -> spec: State::update on arbitrary floats (magnitudes 2^-8 .. 2^30) and intervals of 1 ns .. 1e5 s of either sign and any "
                "parity is logged with its error against the textbook formula in f64 and a bound of 8 f32 epsilons of the terms; TLC validates "
                "the log against NumTrace.tla.")
    ctx.assumptions += ["values are small rationals; agreement within 2^-16 of the largest term that feeds a component, bit-exact for setters, "
                        "accessors, command-from-state and round trips"]
    ctx.exhaustive = True
