#!/usr/bin/env python3
"""Regenerates MANIFEST.json from the table below (run after adding a check)."""
import json, os
V = os.path.dirname(os.path.dirname(os.path.abspath(__file__)))
props = [json.loads(l) for l in open(os.path.join(V, "properties.jsonl"))]

TECH = "TLA+ spec model-checked with TLC; TLC-generated behaviours replayed into the implementation"
STREAM_NOTE = ("Trusted: TLC, the transcription of the stream documentation into Streams.tla, the replay harness; numeric agreement is "
               "decided in the exact dyadic domain (sample values, gains, ticks are small dyadic rationals; tolerance 2^-16 of the "
               "largest magnitude in the behaviour); on arbitrary floats and odd-nanosecond intervals the recorded traces carry, per output, "
               "the error against an f64 evaluation of the textbook formula by the recorder and a bound of n/3+3 f32 epsilons of the magnitudes "
               "involved, which TLC compares (StreamsTrace.tla); that bound is the check's reading of 'up to rounding'.")
TECH0 = "TLA+ spec model-checked with TLC; TLC-generated behaviours replayed into the implementation"
DEV_NOTE = ("Trusted: TLC, the transcription of the device rules into Devices.tla, the replay harness (real terminals and devices are "
            "built per behaviour and every terminal is read after every action); timestamps are ranks mapped monotonically to i64; "
            "numeric agreement within 2^-16 of the largest magnitude in the behaviour.")
CLAIMS = {
 "C16": dict(design_ref="DESIGN.md section 4, C16",
    text="First sentence: Combinators.tla models the n-ary fold slot by slot (scratch array, fill counter, read loop) and TLC checks for arities "
         "1..8 and every error/absent/present pattern that only initialised slots below the counter are read and that the loop refines the "
         "documented fold; the same cases, the four own/partner combinations of the terminal read and axle sizes 0..8 run on the real code with "
         "the scratch arrays poisoned by the verification hook, so a read of an unwritten slot changes value and timestamp. Second sentence: "
         "Lifetimes.tla enumerates programs {take a reference through an accessor; use / move / drop / end of scope}, labels those that use a "
         "reference after its owner is gone, and each is compiled against the crate (accessors found by scanning the sources; a plain reference "
         "as discriminating control); probes for the unsafe constructors and static-making macros. The eleven terminal accessors are known findings.",
    note="Trusted: TLC, the specifications, the hook (0x7F poison), rustc as the oracle for acceptance. The lifetime part covers the program "
         "shapes the model generates, not all Rust programs.",
    technique="TLA+ spec model-checked with TLC; spec cases replayed into the implementation; spec-generated programs compiled against the crate"),
 "C19": dict(design_ref="DESIGN.md section 4, C19",
    text="The configuration is a constant of the specifications (DimCheck in Units, Kinematics, TimeInt, Streams) plus the power function. TLC "
         "generates the behaviours of ten specification modules once per value of DimCheck; harness binaries built as {std, alloc+libm, "
         "alloc+micromath} x {checking in, out} replay them, each against the specification instance of its configuration (so all configurations "
         "agree with each other wherever DimCheck does not matter), ill-dimensioned unit-grid cases must not panic or be rejected when checking "
         "is compiled out, and conversions whose exact result has a fractional nanosecond are compared between the configurations directly. "
         "A battery of seeded programs over arbitrary (non-dyadic) floats is executed in every configuration and the raw bits of all results "
         "are compared between configurations (no power function involved).",
    note="Trusted: TLC, the specifications, the harness. The power function is configuration-supplied: exact under std, 4 ulps under libm "
         "(exponent stream), not compared under micromath. The harness links std; rrtk is no_std + alloc in the libm / micromath builds.",
    technique=TECH),
 "C17": dict(design_ref="DESIGN.md section 4, C17",
    text="Reference.tla models handles (clone, to_dyn, write, read, drop) onto one object for the six variants with the invariants 'every handle "
         "reads the last write' and 'dropped iff reference counted and no handle left'; RefThreads.tla explores every interleaving of N threads x "
         "K lock/read/write/unlock rounds (mutual exclusion, no lost update, termination; the lock-free variant must fail). Bound to the code by "
         "replaying every handle behaviour on real References in a caller crate built without and with features named alloc / std, and by "
         "validating traces of real threads (2..8 threads, 1e3..2e4 increments, four lock variants) against RefThreadsTrace.tla.",
    note="Trusted: TLC, the three specifications, the harness; real schedules are sampled by the OS scheduler.",
    technique="TLA+ spec model-checked with TLC; spec behaviours replayed into the implementation and implementation traces validated by TLC"),
 "C15": dict(design_ref="DESIGN.md section 4, C15",
    text="Settable.tla models set / last request / follow / stop_following / update_following_data with a failing-or-succeeding impl_set, the "
         "GetterFromHistory constructors with set_delta / set_time over a history that returns the time it was asked for, ConstantGetter and "
         "TimeGetterFromGetter; TLC checks the bookkeeping invariant and the action laws (forward only present values while following; each "
         "constructor maps the chosen instant to the chosen history time) on every sequence up to the bound and random sequences of 40; all "
         "are replayed on the trait's provided methods (probe settable), on the crate's ConstantGetter and on real adapters under affine "
         "clock maps reaching the i64 limits. Devices.tla (family follow) models the own terminals of real devices following getters of state "
         "and command data (update_terminals before the computation, first error returned, FollowLaw) and is replayed on real devices; "
         "GetterFromHistory in its six forms is also run over the real MotionProfile of every move of MotionProfile.tla.",
    note="Trusted: TLC, Settable.tla, the harness.", technique=TECH),
 "C20": dict(design_ref="DESIGN.md section 4, C20",
    text="Wrappers.tla models the three device wrappers over a terminal connected to an external terminal; the PID wrapper embeds the CommandPID "
         "machine of PIDMath.tla (the definition checked for C11). TLC checks the action laws (the inner settable receives exactly the data "
         "seen; the encoder writes exactly the getter's present state) on every round sequence up to the bound; behaviours are replayed on the "
         "real wrappers with recording inner objects, and the PID wrapper's motor inputs are compared bit for bit with a real stand-alone "
         "CommandPID fed what the terminal showed, also through rounds in which the data time did not advance (zero interval: the "
         "specification marks the behaviour poisoned and only the bit-for-bit twin decides).",
    note="Trusted: TLC, Wrappers.tla / PIDMath.tla, the harness.", technique=TECH),
 "C06": dict(design_ref="DESIGN.md section 4, C06",
    text="ProfilePhases.tla defines what the six accessors must agree on as a function of the comparisons of t with 0, t1, t2, t3 and of the "
         "end command's kind; TLC checks monotone pieces and the mode laws over all comparison patterns. Bound to the code both ways: every move "
         "of MotionProfile.tla's exact family is built and queried (half ticks, boundaries +-1 ns, i64 extremes; infeasible requests must be "
         "refused), and traces recorded from random constructor arguments are validated event by event by TLC against ProfileTrace.tla.",
    note="Trusted: TLC, the specifications, the harness; in the trace direction the boundaries are recovered by bisection on get_piece.",
    technique="TLA+ spec model-checked with TLC; spec cases replayed into the implementation and implementation traces validated by TLC"),
 "C07": dict(design_ref="DESIGN.md section 4, C07",
    text="MotionProfile.tla contains an independent reference trapezoid in exact rationals written phase by phase; TLC checks on it the sign "
         "pattern of the acceleration, continuity, start / end values, the speed limit, position = integral of velocity, negation symmetry and "
         "acceptance of long moves; every move (1332 quick) is built on the real MotionProfile under 5 tick / scale concretisations and compared "
         "at every half tick, and the negated request must give exactly negated outputs. Zero-displacement moves violate the negation clause "
         "(known finding). In the other direction profiles built from random arguments of the whole stated range are logged (ordered f32 keys; "
         "recorder-computed error and bound for the clauses that need real arithmetic) and validated by TLC against ProfileNumTrace.tla.",
    note="Trusted: TLC, MotionProfile.tla, ProfileNumTrace.tla, the harness. On arbitrary arguments the tolerance is 8 (velocity) / 16 (position) "
         "f32 epsilons of max(|x|, v t3, a t3^2); the integral relation is checked there piecewise (between two queried instants of one piece).",
    technique="TLA+ spec model-checked with TLC; spec cases replayed into the implementation and implementation traces validated by TLC"),
 "C01": dict(design_ref="DESIGN.md section 4, C01",
    text="Units.tla transcribes the three implementation tables (which operator forms exist between Quantity, bare Unit, Time and "
         "DimensionlessInteger, their result unit, when they panic), the grammar of the 49 named constants and the PositionDerivative / "
         "Command / MotionProfilePiece conversions; TLC checks the algebraic laws on every case of the 7x7 grid (~56 000) and on random walks "
         "with exponents up to |60|; every case is executed on the real operators (unit, panic <=> mismatch, value bits vs plain f32), the "
         "constant table is generated from the tree's own constants.rs.",
    note="Trusted: TLC, the transcription of the documentation tables into Units.tla, the harness. Requires dimension checking compiled in.",
    technique=TECH),
 "C14": dict(design_ref="DESIGN.md section 4, C14",
    text="Kinematics.tla gives State::update, the setters with their dimension check, command-from-state, the command accessors / "
         "conversions and component-wise arithmetic over exact rationals; TLC checks the textbook form, identity at dt = 0 and reversibility "
         "on every case; every case is replayed on the real State / Command under 7 concretisations (ticks, value scales down to subnormals).",
    note="Trusted: TLC, Kinematics.tla, the harness; numeric agreement within 2^-16 of the largest contributing term, bit-exact where the "
         "property says unchanged / consistent / round-trip.",
    technique=TECH),
 "C18": dict(design_ref="DESIGN.md section 4, C18",
    text="TimeInt.tla gives the exact integer algebra of Time / DimensionlessInteger (truncating division; laws checked by TLC), the mixed "
         "forms with their convert-then-apply schema, and the conversions on the exact sub-domain; cases are replayed with power-of-two "
         "scalings up to 2^58 (homomorphic concretisation) and compared with the Quantity operator after conversion; in the other direction "
         "TLC validates traces of conversions recorded from the real code on arbitrary i64 times and f32 seconds against TimeIntTrace.tla "
         "(2-ulp, monotonicity, truncation and round-trip bounds as integer inequalities on ordered f32 keys).",
    note="Trusted: TLC, both specifications, the harness and its exact 128-bit reference arithmetic for the recorded error bounds.",
    technique="TLA+ spec model-checked with TLC; spec cases replayed into the implementation and implementation traces validated by TLC"),
 "C02": dict(design_ref="DESIGN.md section 4, C02",
    text="Combinators.tla writes the 18 stateless getters as outcome functions from their documentation; TLC enumerates every input assignment "
         "within the quantifier (all of {Err1,Err2,Absent,Some(t)}^arity, arities 1..5, reduced outcomes to arity 8), checks table = strong Kleene "
         "logic, De Morgan duality, Sum2/Product2 = n-ary, and the slot-level model of the n-ary fold on each case, and prints the predicted "
         "outcome; each case is replayed on the real stream wired to scripted getters (get() twice, value bits compared with a plain-f32 "
         "evaluation of the predicted term).",
    note="Trusted: TLC, the transcription of the documentation into Combinators.tla, the harness's plain-f32 term evaluator, the host's f32::powf.",
    technique=TECH),
 "C03": dict(design_ref="DESIGN.md section 4, C03",
    text="Datum.tla gives the timestamp rule of every Datum<T> operator form, the replace helpers and latest(); TLC checks StepLaw (result time "
         "is an operand time and not older than any; replace iff strictly newer) on every form x rank pair and on random chains, and the "
         "stream-, terminal- and device-level timestamps come from Combinators.tla and Devices.tla; all are replayed on the real code under "
         "monotone rank->i64 maps that include i64::MIN, MIN+1, -1, 0 and i64::MAX (presence and timestamps compared).",
    note="Trusted: TLC, the three specifications, the replay harnesses; values are compared only for the Datum operators (against the payload "
         "type's own operator).",
    technique=TECH),
 "C08": dict(design_ref="DESIGN.md section 4, C08",
    text="TLC checks on Devices.tla, on every update step of every explored history, that the written states satisfy the device constraint, "
         "satisfy the normal equations of the least-squares projection of the reads (exact rationals), are unchanged when the reads already "
         "satisfy the constraint, carry the newest read time, that one-sided information is propagated and that a differential waits for "
         "its trusted branches; every behaviour is replayed on real devices (state reads and own state slots of all terminals compared).",
    note=DEV_NOTE, technique=TECH),
 "C09": dict(design_ref="DESIGN.md section 4, C09",
    text="TLC explores the complete connect/disconnect graph for 2..6 terminals (76 matchings at 6) with the invariant Matching and the "
         "action property ConnectLaw, and emits every matching x every operation (and pairs of operations) plus, for 2-3 terminals, every "
         "presence/timestamp pattern of own states and commands; each is replayed on real terminals, all three reads compared, a panic "
         "being a mismatch. TerminalLinksProof.tla proves with TLAPS, for any number of terminals, that connect / disconnect keep the links a "
         "symmetric partial matching; ConnectBorrow.tla models connect at the level of RefCell borrows (no 'already borrowed' panic; the "
         "pre-fix step order must reach it); random operation sequences on six real terminals with arbitrary values are recorded and "
         "validated by TLC against DevicesTrace.tla, which infers the private links with the same link algebra.",
    note=DEV_NOTE + " TLAPS back ends (SMT, Zenon, Isabelle) are trusted for the unbounded statement about the specification.",
    technique="TLA+ spec model-checked with TLC (and proved with TLAPS for any number of terminals); spec behaviours replayed into the implementation and implementation traces validated by TLC"),
 "C13": dict(design_ref="DESIGN.md section 4, C13",
    text="TLC checks on Devices.tla the action property RelayLaw (after an update every terminal of an inverter / gear train / axle reads "
         "the newest command present before it, mapped from the issuing to the reading side) and the invariant ChainLaw (chains of 1..3 "
         "devices updated in order deliver the command scaled by the product of ratios); behaviours are replayed on real devices and "
         "chains (command reads and own command slots of all terminals compared), differentials must leave commands untouched.",
    note=DEV_NOTE, technique=TECH),
 "C04": dict(design_ref="DESIGN.md section 4, C04",
    text="TLC checks on Streams.tla (machine PID) that the incremental controller equals the closed-form textbook PID over the run of "
         "samples since the last absent/error event (PIDRef) for every history up to the bound and random histories up to 64 events; "
         "each behaviour is replayed into the real PIDControllerStream and into the same controller assembled from the crate's primitive "
         "streams, under several base times (shift invariance), tick lengths (1/512 s .. 64 s) and power-of-two value scalings.",
    note=STREAM_NOTE, technique="TLA+ spec model-checked with TLC; spec behaviours replayed into the implementation and implementation traces validated by TLC"),
 "C10": dict(design_ref="DESIGN.md section 4, C10",
    text="TLC checks on Streams.tla that the integral, derivative and the three to-state machines equal the history-defined trapezoid "
         "sums / difference quotients (IntegralRef, DerivativeRef, ToStateRef) with non-uniform intervals; behaviours (including the 7x7 "
         "unit grid and the unit-assertion panics) are replayed into the real streams under several bases, ticks and scalings.",
    note=STREAM_NOTE, technique="TLA+ spec model-checked with TLC; spec behaviours replayed into the implementation and implementation traces validated by TLC"),
 "C11": dict(design_ref="DESIGN.md section 4, C11",
    text="TLC checks on Streams.tla (machine CmdPID) that the staged update equals the closed forms (PID law on the run, its trapezoid "
         "integral, the integral of that; absent for exactly 0/1/2 samples) and the set/reset rules, for all histories over {sample, absent, "
         "two errors, set same/other kind/other value} up to the bound plus random long ones; replayed into the real CommandPID with a real "
         "reset twin constructed with the command in effect.",
    note=STREAM_NOTE, technique="TLA+ spec model-checked with TLC; spec behaviours replayed into the implementation and implementation traces validated by TLC"),
 "C12": dict(design_ref="DESIGN.md section 4, C12",
    text="TLC checks on Streams.tla (EWMA, moving average) queue non-emptiness, retained-window, non-negative weights summing to the window, "
         "convexity, first-sample and constant-input laws; behaviours with repeated timestamps, short and long windows are replayed into the "
         "f32 and the Quantity variants of both real filters, the variants compared bit for bit, any panic being a mismatch.",
    note=STREAM_NOTE + " EWMA behaviours use a tick of one second and smoothing constants whose powers are exact, so the power function is exact.",
    technique=TECH),
 "C05": dict(
    design_ref="DESIGN.md section 4, C05",
    text="TLC checks spec/Streams.tla (14 stream machines; laws NoStaleError, FreezeLaw, ResetTwin, SkipAbsentTwin and the "
         "closed-form references) on every history up to the bound and on random long histories; every emitted behaviour is "
         "replayed into the real streams under several time/value concretisations, comparing update()'s result, 1-3 get() calls, "
         "a freshly constructed real twin restarted at each reset event and a twin that never sees absent samples. StreamShapes.tla is "
         "the value-free abstraction (a refinement mapping of the machines, checked by TLC); StreamShapesProof.tla proves with TLAPS for "
         "histories of any length that no stale error is shown and that a reset forgets the past; traces of random histories (8..64 events, "
         "arbitrary floats) recorded from the real streams are validated by TLC against StreamsTrace.tla.",
    note="Trusted: TLC, the transcription of each stream's documented reset class into Streams.tla, the replay harness; numeric "
         "agreement is decided in the exact dyadic domain (tolerance 2^-16 of the largest magnitude in the behaviour).",
    technique=TECH),
}
PENDING = "check under construction in this round (specification module not yet bound to the code); not claimed until it runs green"

checks, na = [], []
for p in props:
    pid = p["id"]
    if pid in CLAIMS:
        c = CLAIMS[pid]
        checks.append({
            "property_id": pid,
            "quick_cmd": "./check %s --tier quick" % pid,
            "thorough_cmd": "./check %s --tier thorough" % pid,
            "evidence_file": "/verif/evidence/%s.json" % pid,
            "replay_cmd_template": "./check %s --replay {path}" % pid,
            "engine": "tlc+rrtk-conform",
            "level_claimed": {"category": "model_checking", "text": c["text"], "design_ref": c["design_ref"]},
            "level_note": c["note"],
            "technique": c["technique"],
        })
    else:
        na.append({"property_id": pid, "reason": PENDING})
m = {
 "version": 1,
 "setup_cmd": "cd /verif/harness && cargo build --release --offline --bins 2>&1 | tail -3",
 "hooks": {
   "guard": "rrtk_verif",
   "enable": "RUSTFLAGS='--cfg rrtk_verif' (set in /verif/harness/.cargo/config.toml; the harness has a path dependency on /repo)",
   "baseline_off_cmd": "cd /repo && cargo nextest run --workspace --no-fail-fast --test-threads 8 --offline || cargo test --workspace --no-fail-fast --offline",
   "source_commits": ["cd11b34"],
   "add_only": True,
 },
 "engines": [
   {"name": "tlc+rrtk-conform", "path": "/verif/check",
    "serves_properties": [c["property_id"] for c in checks],
    "kind_free_text": "python driver: TLC on /verif/spec/*.tla, behaviours replayed by the Rust harness /verif/harness against /repo, recorded traces validated by TLC"}],
 "checks": checks,
 "not_applicable": na,
 "notes": "See DESIGN.md. Fix commits in /repo: c22cbd0 (C05 stale error in integral/derivative streams), 9c8bcaa (C09 connect panic); recorded in known_findings.json.",
}
json.dump(m, open(os.path.join(V, "MANIFEST.json"), "w"), indent=1)
print("claimed", len(checks), "pending", len(na))
