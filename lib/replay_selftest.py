#!/usr/bin/env python3
"""replay_selftest.py [<seeded id> ...] : for each seeded change apply it, run the check of its property, replay the first violation file
with `./check <id> --replay <file>` (must reproduce: exit 1), undo the change and replay the same file again (must not reproduce: exit 0).
Results in seeded/REPLAY.json."""
import json, os, subprocess, sys, glob, shutil
V = os.path.dirname(os.path.dirname(os.path.abspath(__file__)))
DEFAULT = ["C01-r3m1", "C02-r3m1", "C03-r3m2", "C04-r3m1", "C05-r3m1", "C06-r3m1", "C07-r3m1", "C08-r3m1", "C09-r3m2", "C10-r3m2", "C11-r3m1",
           "C12-r3m1", "C13-r3m1", "C14-r3m1", "C15-r3m2", "C16-r3m1", "C17-r3m1", "C18-r3m1", "C19-r3m1", "C20-r3m1"]
sel = sys.argv[1:] or DEFAULT
def sh(cmd, **kw):
    return subprocess.run(cmd, stdout=subprocess.PIPE, stderr=subprocess.STDOUT, text=True, **kw)
assert sh(["git", "-C", "/repo", "status", "--porcelain", "--untracked-files=no"]).stdout.strip() == "", "/repo not clean"
resf = os.path.join(V, "seeded", "REPLAY.json")
results = json.load(open(resf)) if os.path.exists(resf) else {}
for d in sel:
    meta = json.load(open(os.path.join(V, "seeded", d, "meta.json")))
    pid = meta.get("breaks_property") or (meta.get("candidate_checks") or [None])[0]
    keep = os.path.join(V, "out", "replay_selftest")
    os.makedirs(keep, exist_ok=True)
    r = sh(["git", "-C", "/repo", "apply", os.path.join(V, "seeded", d, "patch.diff")])
    if r.returncode != 0:
        print(d, "patch does not apply"); continue
    try:
        c = sh([os.path.join(V, "check"), pid], cwd=V)
        viols = [l.split("replay=")[1].strip() for l in c.stdout.splitlines() if l.startswith("VIOLATION property=%s " % pid)]
        if not viols:
            results[d] = {"property": pid, "check_exit": c.returncode, "note": "no violation to replay"}
            print(d, pid, "no violation"); continue
        vf = os.path.join(keep, d + ".json")
        shutil.copy(viols[0], vf)
        kind = json.load(open(vf)).get("replay_kind")
        r1 = sh([os.path.join(V, "check"), pid, "--replay", vf], cwd=V)
    finally:
        sh(["git", "-C", "/repo", "checkout", "--", "."])
    r2 = sh([os.path.join(V, "check"), pid, "--replay", vf], cwd=V)
    results[d] = {"property": pid, "replay_kind": kind, "with_change": r1.returncode, "without_change": r2.returncode,
                  "ok": r1.returncode == 1 and r2.returncode == 0, "tail_with": r1.stdout.strip().splitlines()[-1:][0][:200] if r1.stdout.strip() else "",
                  "tail_without": r2.stdout.strip().splitlines()[-1:][0][:200] if r2.stdout.strip() else ""}
    json.dump(results, open(resf, "w"), indent=1, sort_keys=True)
    print("%-10s %s %-18s with=%d without=%d %s" % (d, pid, kind, r1.returncode, r2.returncode, "OK" if results[d]["ok"] else "PROBLEM"), flush=True)
