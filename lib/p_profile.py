"""C06, C07: spec/MotionProfile.tla (+ ProfilePhases.tla, ProfileTrace.tla)."""
import json, os, concurrent.futures as cf
import vlib
from vlib import cfg_text, run_tlc, tlc_ok, build_harness, run_bin, ToolError
from registry import register, replayer
from p_pure import trace_check


def run_profile(ctx, mode, rich):
    cfg = cfg_text(constants={"Rich": rich, "Emit": True}, invariants=["Laws", "EmitInv"])
    with cf.ThreadPoolExecutor(max_workers=2) as ex:
        fb = ex.submit(build_harness, ["profile"])
        r = tlc_ok(ex.submit(run_tlc, ctx, "MotionProfile", cfg, "moves", 4).result())
        bindir = fb.result()
    if r["n"] == 0:
        raise ToolError("TLC emitted no moves")
    # also under the build with overflow checks and debug assertions: an accessor must not panic at the i64 extremes there either
    mism, summary, _ = vlib.run_bin_checked_too("profile", ["replay", r["behaviours"], ctx.seed, "--mode", mode], timeout=1200)
    ctx.evaluations += summary.get("queries", 0)
    ctx.traces += summary.get("behaviours", 0)
    ctx.extra["replay_summary"] = summary
    for k in range(summary.get("nontrivial", 0)):
        ctx.nontrivial.add(k)
    lines = vlib.read_ndjson(r["behaviours"])
    for b in (lines[3], lines[len(lines) // 2], lines[-5]):
        ctx.sample({"move": b["mv"], "constructor_must_panic": b["panic"], "queries": b["queries"][:3]})
    for m in mism[:60]:
        case = lines[m["line"]]
        ctx.violation(m["class"], {"replay_kind": "profile", "case": case, "mismatch": m, "seed": ctx.seed, "mode": mode},
                      "move #%d %s: %s; expected %s, implementation gave %s (concretisation %s)" % (
                          m["line"], json.dumps({k: case["mv"][k] for k in ("x0", "v0", "xe", "ve", "ae", "vm", "am", "t1", "t2", "t3")}),
                          m["what"], json.dumps(m["exp"]), json.dumps(m["got"]), json.dumps(m["conc"])))
    return bindir


@replayer("profile")
def replay_profile(pid, v):
    out = os.path.join(vlib.OUT, pid)
    os.makedirs(out, exist_ok=True)
    bp = os.path.join(out, "replay_one.ndjson")
    open(bp, "w").write(json.dumps(v["case"]) + "\n")
    bindir = build_harness(["profile"], checked=bool(v.get("mismatch", {}).get("build")))
    mism, summary, _ = run_bin(bindir, "profile", ["replay", bp, v.get("seed", 1), "--mode", v.get("mode", "all")])
    return mism[0] if mism else None


@replayer("profile_trace")
def replay_profile_trace(pid, v):
    ctx = vlib.Ctx(pid + "_replay", "quick", 1)
    bindir = build_harness(["profile"])
    ok = trace_check(ctx, "ProfileTrace", bindir, "profile", v["record_args"], "accessors", "MotionProfile accessors", "profile_trace")
    return None if ok else ctx.violations[0][2]


@replayer("profile_numtrace")
def replay_profile_numtrace(pid, v):
    ctx = vlib.Ctx(pid + "_replay", "quick", 1)
    bindir = build_harness(["profile"])
    ok = trace_check(ctx, "ProfileNumTrace", bindir, "profile", v["record_args"], "numeric", "MotionProfile trajectory", "profile_numtrace")
    return None if ok else ctx.violations[0][2]


@register("C06")
def c06(ctx):
    q = ctx.tier == "quick"
    bindir = run_profile(ctx, "c06", rich=not q)
    trace_check(ctx, "ProfileTrace", bindir, "profile", [ctx.seed, 400 if q else 8000], "accessors", "MotionProfile accessors", "profile_trace")
    ctx.rule = ("spec -> impl: every move of the exact family (2 directions x 3-4 speed limits x phase durations -1..2(3) ticks x 2 start "
                "positions x 2 end accelerations; a negative duration = infeasible request that the constructor must refuse) is built under 5 "
                "tick / scale concretisations and queried at every half tick, at each boundary +-1 ns, before the start, after the end and at "
                "i64::MIN / MAX: piece, mode, presence of acceleration / velocity / position and the history (kind, time, bits) against the "
                "phase automaton. impl -> spec: random constructor arguments (positions +-1e4, limits 1e-2..1e3, speeds sometimes beyond the "
                "limit), boundaries recovered by bisection on get_piece, ~60 sorted queries per profile validated by TLC against "
                "ProfileTrace.tla (including: pieces never go back). Non-trivial = an accepted move.")
    ctx.assumptions += ["the recorder recovers t1..t3 from get_piece by bisection, so get_piece is the reference accessor of the trace check; "
                        "its own phase order is checked by the trace specification (monotone pieces) and against the exact family"]
    ctx.exhaustive = False


@register("C07")
def c07(ctx):
    q = ctx.tier == "quick"
    bindir = run_profile(ctx, "c07", rich=not q)
    trace_check(ctx, "ProfileNumTrace", bindir, "profile", [ctx.seed, 600 if q else 12000, "num"], "numeric", "MotionProfile trajectory", "profile_numtrace")
    ctx.rule = ("Every feasible move of the exact family is compared, at every half tick of [0, t3] and after completion, with the reference "
                "trapezoid of MotionProfile.tla (acceleration, velocity, position as exact rationals), under 5 tick / scale concretisations and "
                "with both signs of the limits; TLC checks on the reference: sign pattern of the acceleration, continuity at t1 / t2, start and "
                "end values, the speed limit, position = trapezoid integral of velocity, negation symmetry, acceptance of long moves; the "
                "harness also builds the negated request and demands exactly negated outputs; infeasible requests must be refused. "
                "impl -> spec: profiles built from random arguments of the whole stated range (positions +-1e4, limits 1e-2..1e3, speeds "
                "within the limit) are queried at t = 0, at each boundary +-1 ns and at 24 random instants together with the negated request; "
                "TLC validates the log against ProfileNumTrace.tla: acceleration key = +a / 0 / -a per piece with the sign of the displacement, "
                "exact start values at t = 0, exactly negated outputs of the negated request, and speed limit / continuity at the joins / "
                "arrival at the goal within 8 (velocity) or 16 (position) f32 epsilons of the magnitudes involved. "
                "Non-trivial = an accepted move.")
    ctx.assumptions += ["exact family: durations are whole ticks, limits and speeds small dyadic rationals, agreement within 2^-16 of the largest "
                        "magnitude; on arbitrary arguments the integral relation is checked piecewise (between two queried instants of one "
                        "piece the position advances by the mean of the two velocities times the interval), and the tolerance factors (8 / 16 epsilon of max(|x|, v t3, a t3^2)) are the "
                        "check's reading of 'a rounding tolerance proportional to f32 epsilon times the magnitudes involved'"]
    ctx.exhaustive = False
