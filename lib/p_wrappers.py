"""C20: spec/Wrappers.tla."""
import json, os, concurrent.futures as cf
import vlib
from vlib import cfg_text, run_tlc, tlc_ok, build_harness, run_bin, ToolError
from registry import register, replayer


def w_cfg(family, maxlen):
    return cfg_text(constants={"Family": family, "MaxLen": maxlen, "Emit": True}, invariants=["Laws", "EmitInv"],
                    properties=["ActActionLaw", "EncActionLaw"], constraints=["Bound"])


@replayer("wrappers")
def replay_wrappers(pid, v):
    out = os.path.join(vlib.OUT, pid)
    os.makedirs(out, exist_ok=True)
    bp = os.path.join(out, "replay_one.ndjson")
    open(bp, "w").write(json.dumps(v["behaviour"]) + "\n")
    bindir = build_harness(["wrappers"])
    mism, summary, _ = run_bin(bindir, "wrappers", ["replay", bp, v.get("seed", 1)])
    return mism[0] if mism else None


@register("C20")
def c20(ctx):
    q = ctx.tier == "quick"
    fams = ("actuator", "encoder", "pid")
    with cf.ThreadPoolExecutor(max_workers=6) as ex:
        fb = ex.submit(build_harness, ["wrappers"])
        futs = [ex.submit(run_tlc, ctx, "Wrappers", w_cfg(f, 5 if q else 6), "exh_" + f, 2) for f in fams]
        futs += [ex.submit(run_tlc, ctx, "Wrappers", w_cfg(f, 32), "sim_" + f, 1, 40 if q else 400, 34) for f in fams]
        results = [tlc_ok(f.result()) for f in futs]
        bindir = fb.result()
    allb = vlib.concat([r["behaviours"] for r in results], os.path.join(ctx.out, "behaviours.ndjson"))
    if min(r["n"] for r in results) == 0:
        raise ToolError("TLC emitted no behaviours for one of the runs")
    mism, summary, _ = run_bin(bindir, "wrappers", ["replay", allb, ctx.seed], timeout=1500)
    ctx.evaluations += summary.get("replays", 0)
    ctx.traces += summary.get("behaviours", 0)
    ctx.extra["replay_summary"] = summary
    for k in range(summary.get("nontrivial", 0)):
        ctx.nontrivial.add(k)
    for name in ("exh_actuator", "exh_encoder", "exh_pid"):
        b = vlib.read_ndjson(os.path.join(ctx.out, name + ".ndjson"), limit=5000)[-1]
        ctx.sample({"family": b["family"], "steps": [{"a": s["a"], "ret": s["ret"]} for s in b["steps"]], "final_observation": b["steps"][-1]["obs"]})
    seen = set()
    for m in mism:
        if m["line"] in seen:
            continue
        seen.add(m["line"])
        beh = json.loads(vlib.nth_line(allb, m["line"]))
        ctx.violation("wrappers:%s:%s" % (m["family"], m["what"].split(" (")[0][:60]), {"replay_kind": "wrappers", "behaviour": beh, "mismatch": m, "seed": ctx.seed},
                      "%s wrapper behaviour #%d %s step %d: %s; expected %s, implementation gave %s (%s)" % (
                          m["family"], m["line"], json.dumps([s["a"] for s in beh["steps"]][:m["step"] + 1]), m["step"], m["what"],
                          json.dumps(m["exp"])[:400], json.dumps(m["got"])[:400], json.dumps(m["conc"])))
    ctx.rule = ("Rounds in which the connected terminal receives a new state, a new command, both or nothing, the inner settable accepts or "
                "rejects, the inner getter is present / absent / erroring and its update succeeds or fails, followed by update(): every "
                "sequence up to the bound and random sequences of 32. actuator: the recording inner settable must have received exactly the "
                "combined data the terminal showed at each update; encoder: the wrapper terminal's own state = the getter's present state; "
                "pid: the recording motor's inputs are compared bit for bit with a real stand-alone CommandPID fed the times, states and "
                "commands read at the terminal, and with the specification's controller. Non-trivial = an update after a write.")
    ctx.assumptions += ["pid family: every update sees a new data time (two updates on the same data time make the real controller divide by a "
                        "zero interval; such histories are outside the model)"]
    ctx.exhaustive = False
