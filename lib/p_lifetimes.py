"""C16: (a) scratch slots (Combinators.tla slot model, Devices.tla with the poison hook) and
(b) lifetimes: programs enumerated by TLC from spec/Lifetimes.tla, rendered to Rust and compiled against the real crate."""
import json, os, re, shutil, subprocess, concurrent.futures as cf
import vlib
from vlib import cfg_text, run_tlc, tlc_ok, build_harness, run_bin, ToolError, log
from registry import register, replayer
import p_pure, p_devices

OWNERS = {
    "Invert": "Invert::<()>::new()",
    "GearTrain": "GearTrain::<()>::with_ratio_raw(2.0)",
    "Axle": "Axle::<2, ()>::new()",
    "Differential": "Differential::<()>::new()",
    "ActuatorWrapper": "ActuatorWrapper::new(DummyActuator { data: SettableData::new() })",
    "GetterStateDeviceWrapper": "GetterStateDeviceWrapper::new(DummyEncoder)",
    "PIDWrapper": "PIDWrapper::new(DummyMotor { data: SettableData::new() }, Time(0), State::new_raw(0.0, 0.0, 0.0), Command::Position(0.0), "
                  "PositionDerivativeDependentPIDKValues::new(PIDKValues::new(1.0, 0.0, 0.0), PIDKValues::new(1.0, 0.0, 0.0), PIDKValues::new(1.0, 0.0, 0.0)))",
}
PRELUDE = """// generated from spec/Lifetimes.tla -- %s
#![allow(unused)]
use rrtk::devices::wrappers::*;
use rrtk::devices::*;
use rrtk::*;
struct DummyActuator { data: SettableData<TerminalData, ()> }
impl Settable<TerminalData, ()> for DummyActuator {
    fn impl_set(&mut self, _v: TerminalData) -> NothingOrError<()> { Ok(()) }
    fn get_settable_data_ref(&self) -> &SettableData<TerminalData, ()> { &self.data }
    fn get_settable_data_mut(&mut self) -> &mut SettableData<TerminalData, ()> { &mut self.data }
}
impl Updatable<()> for DummyActuator { fn update(&mut self) -> NothingOrError<()> { Ok(()) } }
struct DummyEncoder;
impl Getter<State, ()> for DummyEncoder { fn get(&self) -> Output<State, ()> { Ok(None) } }
impl Updatable<()> for DummyEncoder { fn update(&mut self) -> NothingOrError<()> { Ok(()) } }
struct DummyMotor { data: SettableData<f32, ()> }
impl Settable<f32, ()> for DummyMotor {
    fn impl_set(&mut self, _v: f32) -> NothingOrError<()> { Ok(()) }
    fn get_settable_data_ref(&self) -> &SettableData<f32, ()> { &self.data }
    fn get_settable_data_mut(&mut self) -> &mut SettableData<f32, ()> { &mut self.data }
}
impl Updatable<()> for DummyMotor { fn update(&mut self) -> NothingOrError<()> { self.update_following_data() } }
"""


def scan_accessors():
    """public fns taking `&self` and returning a reference whose lifetime is a named lifetime of the impl, not tied to the borrow of self"""
    found = {}
    for rel in ("src/devices.rs", "src/devices/wrappers.rs", "src/lib.rs", "src/reference.rs", "src/streams.rs", "src/motion_profile.rs"):
        path = os.path.join("/repo", rel)
        if not os.path.exists(path):
            continue
        cur = None
        for line in open(path):
            if re.match(r"\s*impl\b", line):
                m = re.match(r"\s*impl<'\w+.*>\s+(\w+)<'\w+[^{]*\{", line)
                cur = m.group(1) if (m and " for " not in line) else None
                continue
            m = re.match(r"\s*pub fn (\w+)\(\s*&self\s*(?:,\s*(\w+)\s*:\s*(\w+)\s*)?\)\s*->\s*&'(\w+)\s", line)
            if m and cur:
                name, argty = m.group(1), m.group(3)
                found["%s::%s" % (cur, name)] = {"type": cur, "fn": name, "args": "0" if argty == "usize" else ("" if argty is None else None), "file": rel}
    return found


def render(prog, accs):
    a = prog["acc"]
    if a == "control::plain_reference":
        ctor, take = "Terminal::<()>::new()", "&owner"
    else:
        info = accs[a]
        ctor, take = OWNERS[info["type"]], "owner.%s(%s)" % (info["fn"], info["args"])
    body_in, body_out, ended = [], [], False
    for s in prog["stmts"]:
        tgt = body_out if ended else body_in
        if s == "use":
            tgt.append("let _u = core::hint::black_box(&*r);")
        elif s == "move":
            tgt.append("let _moved = owner;")
        elif s == "drop":
            tgt.append("drop(owner);")
        elif s == "endscope":
            ended = True
    src = PRELUDE % json.dumps(prog)
    src += "fn main() {\n    let r;\n    {\n        let owner = %s;\n        r = %s;\n" % (ctor, take)
    src += "".join("        %s\n" % l for l in body_in)
    src += "    }\n" + "".join("    %s\n" % l for l in body_out) + "}\n"
    return src


EXTRA = [   # the raw-pointer variants are only constructible through unsafe fns or static-making macros
    ("must_reject", "unsafe_ctor::from_ptr", "fn main() { let mut x = 5i32; let r = Reference::from_ptr(&mut x as *mut i32); }"),
    ("must_reject", "unsafe_ctor::from_ptr_rw_lock", "fn main() { let l = std::sync::RwLock::new(5i32); let r = Reference::from_ptr_rw_lock(&l as *const _); }"),
    ("must_reject", "unsafe_ctor::from_ptr_mutex", "fn main() { let l = std::sync::Mutex::new(5i32); let r = Reference::from_ptr_mutex(&l as *const _); }"),
    ("must_reject", "unsafe_ctor::ReferenceUnsafe_borrow", "fn main() { let r = rc_ref_cell_reference(5i32); let u = r.into_inner(); let b = u.borrow(); }"),
    ("must_accept", "static_macro::static_reference", "fn main() { let r = static_reference!(i32, 5); *r.borrow_mut() = 6; }"),
    ("must_accept", "static_macro::static_rw_lock_reference", "fn main() { let r = static_rw_lock_reference!(i32, 5); *r.borrow_mut() = 6; }"),
    ("must_accept", "static_macro::static_mutex_reference", "fn main() { let r = static_mutex_reference!(i32, 5); *r.borrow_mut() = 6; }"),
]


def compile_programs(ctx, progs, features=("std", "devices", "dim_check_release"), tag="probes", run=False):
    """progs: list of (name, source).  Returns {name: (accepted?, error code or run status)}"""
    proj = os.path.join(ctx.out, tag)
    shutil.rmtree(proj, ignore_errors=True)
    os.makedirs(os.path.join(proj, "src", "bin"))
    os.makedirs(os.path.join(proj, ".cargo"))
    open(os.path.join(proj, "Cargo.toml"), "w").write(
        '[package]\nname = "probes"\nversion = "0.0.0"\nedition = "2021"\npublish = false\n[workspace]\n[dependencies]\n'
        'rrtk = { path = "/repo", default-features = false, features = [%s] }\n' % ", ".join('"%s"' % f for f in features))
    open(os.path.join(proj, ".cargo", "config.toml"), "w").write('[net]\noffline = true\n')
    shutil.copy(os.path.join(vlib.HARNESS, "Cargo.lock"), os.path.join(proj, "Cargo.lock"))
    for name, src in progs:
        open(os.path.join(proj, "src", "bin", name + ".rs"), "w").write(src)
    cmd = ["cargo", "build" if run else "check", "--offline", "--bins", "--keep-going", "--message-format=json",
           "--target-dir", os.path.join(vlib.HARNESS, "target-" + tag)]
    p = subprocess.run(cmd, cwd=proj, stdout=subprocess.PIPE, stderr=subprocess.PIPE, text=True)
    ok, err = set(), {}
    for line in p.stdout.splitlines():
        try:
            m = json.loads(line)
        except ValueError:
            continue
        tn = m.get("target", {}).get("name")
        if m.get("reason") == "compiler-artifact" and tn:
            ok.add(tn)
        elif m.get("reason") == "compiler-message" and m["message"].get("level") == "error" and tn:
            err.setdefault(tn, m["message"].get("code", {}) and m["message"]["code"].get("code") or m["message"]["message"][:80])
    res = {}
    for name, _ in progs:
        if name in err:
            res[name] = (False, err[name])
        elif name in ok:
            if run:
                exe = os.path.join(vlib.HARNESS, "target-" + tag, "debug", name)
                r = subprocess.run([exe], stdout=subprocess.PIPE, stderr=subprocess.PIPE, text=True, timeout=60)
                res[name] = (r.returncode == 0, None if r.returncode == 0 else "run failed: " + (r.stderr.strip().splitlines() or ["?"])[-1][:200])
            else:
                res[name] = (True, None)
        else:
            raise ToolError("cargo check said nothing about probe %s: %s" % (name, p.stderr[-1500:]))
    return res


@replayer("lifetime_program")
def replay_program(pid, v):
    ctx = vlib.Ctx(pid + "_replay", "quick", 1)
    res = compile_programs(ctx, [("p0", v["source"])])
    accepted = res["p0"][0]
    return "the compiler still accepts this program, which uses a reference after its owner is gone" if accepted and v["must_reject"] else None


def lifetimes_part(ctx, maxlen):
    accs = scan_accessors()
    unknown = [a for a, i in accs.items() if i["type"] not in OWNERS or i["args"] is None]
    if unknown:
        ctx.notes.append("accessors with an untied lifetime that the program template cannot instantiate (reported, not compiled): %s" % unknown)
    usable = sorted(a for a in accs if a not in unknown)
    ids = usable + ["control::plain_reference"]
    cfg = cfg_text(constants={"Accessors": set(ids), "MaxLen": maxlen, "Emit": True}, invariants=["LabelLaw", "EmitInv"])
    r = tlc_ok(run_tlc(ctx, "Lifetimes", cfg, "programs", 2))
    progs = vlib.read_ndjson(r["behaviours"])
    if not progs:
        raise ToolError("TLC generated no programs")
    named = []
    for k, p in enumerate(progs):
        named.append(("p%04d" % k, render(p, accs), p))
    extra = [("x%02d" % k, (PRELUDE % json.dumps({"probe": nm})) + src + "\n", {"acc": nm, "stmts": [], "must_reject": lab == "must_reject"})
             for k, (lab, nm, src) in enumerate(EXTRA)]
    res = compile_programs(ctx, [(n, s) for n, s, _ in named + extra])
    ctx.evaluations += len(res)
    ctx.traces += len(res)
    ctx.extra["programs"] = len(res)
    ctx.extra["accessors_scanned"] = sorted(accs)
    rejected_ok = 0
    for name, src, p in named + extra:
        accepted, code = res[name]
        if p["must_reject"]:
            ctx.nontrivial.add(("prog", name))
            if accepted:
                ctx.violation("lifetime:%s" % p["acc"], {"replay_kind": "lifetime_program", "program": p, "source": src, "must_reject": True},
                              "safe program accepted by the compiler although it uses a reference after its owner is gone / constructs a raw-pointer "
                              "Reference without unsafe: accessor %s, statements %s" % (p["acc"], p["stmts"]))
            else:
                rejected_ok += 1
        elif not accepted:
            raise ToolError("a must_accept probe was rejected by the compiler (%s): %s %s" % (code, p, name))
    # the pipeline must be able to see rejections: the sound control's must_reject programs were rejected
    ctl = [n for n, s, p in named if p["acc"] == "control::plain_reference" and p["must_reject"]]
    if not ctl or any(res[n][0] for n in ctl):
        raise ToolError("control programs over a plain `&owner` reference were not rejected: the probe pipeline is not discriminating")
    ctx.extra["must_reject_programs_rejected_by_compiler"] = rejected_ok
    ctx.sample({"program": named[len(named) // 2][2], "rust": named[len(named) // 2][1].split("fn main")[1]})


POISON_I64 = 0x7F7F7F7F7F7F7F7F
POISON_U32 = 0x7F7F7F7F


def memory_symptom(m):
    """C16 is about memory: of the replay mismatches only those that show the hook's poison (an unwritten scratch slot was read: a
    timestamp of 0x7F7F..., a value of 3.39e38 or something computed from it), a panic (index out of range, failed borrow) or an
    out-of-range accessor are reported under C16; a merely wrong sum or state is the business of C02 / C08 / C09."""
    if "out of range" in str(m.get("what", "")) or "panick" in str(m.get("what", "")) or "borrow" in str(m.get("what", "")):
        return True
    def walk(v, inside=False):
        if isinstance(v, bool):
            return False
        if isinstance(v, int):
            return v in (POISON_I64, POISON_U32)
        if isinstance(v, float):
            return abs(v) >= 1e36 or v != v
        if v is None:
            return inside                    # serde_json writes NaN / infinity as null INSIDE a list of numbers; a bare null is an absent read
        if isinstance(v, str):
            return "panic" in v or "OUT-OF-RANGE" in v or "already" in v
        if isinstance(v, dict):
            return any(walk(x, inside) for x in v.values())
        if isinstance(v, list):
            return any(walk(x, True) for x in v)
        return False
    return walk(m.get("got"))


@register("C16")
def c16(ctx):
    q = ctx.tier == "quick"
    # (a) scratch slots: n-ary sum / product for arities 1..8, every present / absent / error pattern (slot model checked by TLC, poisoned scratch arrays in the code)
    p_pure.run_combinators(ctx, [("nary", p_pure.comb_cfg(["SumN", "ProductN"], 8, False)), ("nary_wide", p_pure.comb_cfg(["SumN", "ProductN"], 4 if q else 5, True))],
                           only_if=memory_symptom)
    # terminal state read: the four own / partner presence combinations; axle constructor sizes 0..8
    jobs = [("term2", p_devices.dev_cfg("matchdata", [], 1, nt=2), 1, None),
            ("axles", p_devices.dev_cfg("single", ["axlebig"], 2), 4, None)]
    p_devices.run_devices(ctx, jobs, 0, observe="all", only_if=memory_symptom, extra_args=["--probe-bounds"])
    # (b) lifetimes
    lifetimes_part(ctx, 3 if q else 4)
    # a Reference must not outlive its target either: the handle behaviours of Reference.tla (clone / to_dyn / drop), drop counter inspected
    import p_reference
    r = tlc_ok(run_tlc(ctx, "Reference", p_reference.ref_cfg(4 if q else 5), "handles", 4))
    bindir = build_harness(["reference"])
    mism, summary, _ = run_bin(bindir, "reference", ["replay", r["behaviours"], ctx.seed], timeout=600)
    ctx.evaluations += summary.get("replays", 0)
    ctx.extra["reference_replay_summary"] = summary
    seen = set()
    for m in mism:
        if "dropped" not in m["what"] or (m["variant"], m["what"]) in seen:
            continue                                   # aliasing / to_dyn availability are C17's business
        seen.add((m["variant"], m["what"]))
        beh = json.loads(vlib.nth_line(r["behaviours"], m["line"]))
        ctx.violation("reference_outlives_target:%s" % m["variant"], {"replay_kind": "reference", "behaviour": beh, "mismatch": m},
                      "%s: a live Reference outlives its target: %s after %s" % (m["variant"], m["what"], json.dumps([s["a"] for s in beh["steps"]][:m["step"] + 1])))
    ctx.rule = ("(a) SumStream / ProductStream with arities 1..8 and every pattern of {error, absent, present} inputs: TLC checks on the slot-level "
                "model that only initialised slots below the fill counter are read, the harness runs the real streams with the scratch arrays "
                "poisoned (hook) and compares value and timestamp; terminal state read for the four own / partner presence combinations; axle "
                "constructor for sizes 0..8 (fresh terminals must be borrowable, empty and unlinked, out-of-range get_terminal must panic). "
                "(b) every program of up to 3-4 statements {use, move, drop, end of scope} after taking a reference through each accessor whose "
                "returned lifetime is not tied to &self (found by scanning the sources) or a plain reference (control), compiled against the "
                "crate; probes for the unsafe raw-pointer constructors and the static-making macros; the handle behaviours of Reference.tla with the "
                "payload's drop counter inspected after every operation (a live Reference must not outlive its target). Non-trivial = mixed inputs / a must_reject program.")
    ctx.assumptions += ["the Rust compiler is the oracle for whether a program is accepted, the specification for whether accepting it is safe",
                        "(b) decides the property for the program shapes the model generates (take / use / move / drop / scope end over every scanned accessor)"]
    ctx.exhaustive = False
