#!/usr/bin/env python3
"""verify_mutant.py <worktree> <mutant dir> <out.json> [demo cargo args...]
Confirms, in a scratch worktree of /repo, that a candidate seeded change (1) applies, (2) keeps both
existing test suites green, (3) makes its demonstration fail and (4) the demonstration passes without it."""
import json, os, subprocess, sys, shutil
wt, md, out = sys.argv[1:4]
demo_args = sys.argv[4:]
def run(cmd, **kw):
    p = subprocess.run(cmd, cwd=wt, stdout=subprocess.PIPE, stderr=subprocess.STDOUT, text=True, **kw)
    return p.returncode, p.stdout
res = {"worktree": wt, "mutant": md}
run(["git", "checkout", "--", "."])
demo = os.path.join(wt, "tests", "demo_mutant.rs")
if os.path.exists(demo): os.remove(demo)
rc, o = run(["git", "apply", os.path.join(md, "patch.diff")])
res["applies"] = rc == 0
if rc == 0:
    rc1, o1 = run(["cargo", "test", "--workspace", "--no-fail-fast", "--offline"])
    rc2, o2 = run(["cargo", "test", "--offline", "--features", "devices"])
    res["suite_default_green"] = rc1 == 0
    res["suite_devices_green"] = rc2 == 0
    shutil.copy(os.path.join(md, "demo_mutant.rs"), demo)
    if not demo_args:
        readme = open(os.path.join(md, "README.md")).read()
        demo_args = ["--features", "devices"] if "--features devices --test demo_mutant" in readme else []
    cmd = ["cargo", "test", "--offline"] + demo_args + ["--test", "demo_mutant"]
    res["demo_cmd"] = " ".join(cmd)
    rc3, o3 = run(cmd)
    res["demo_fails_with_change"] = rc3 != 0
    res["demo_output_with_change"] = [l for l in o3.splitlines() if l.startswith("test ") or "panicked" in l][:12]
    run(["git", "checkout", "--", "src"])
    rc4, o4 = run(cmd)
    res["demo_passes_without_change"] = rc4 == 0
    os.remove(demo)
run(["git", "checkout", "--", "."])
res["confirmed"] = all(res.get(k) for k in ["applies", "suite_default_green", "suite_devices_green", "demo_fails_with_change", "demo_passes_without_change"])
json.dump(res, open(out, "w"), indent=1)
print(md, "CONFIRMED" if res["confirmed"] else "NOT CONFIRMED", {k: v for k, v in res.items() if isinstance(v, bool)})
