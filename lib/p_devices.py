"""C08, C09, C13 (and the terminal/device-level clauses of C03): spec/Devices.tla."""
import json, os, random, concurrent.futures as cf
import vlib
from vlib import cfg_text, run_tlc, tlc_ok, build_harness, run_bin, ToolError, log
from registry import register, replayer

INV = ["Matching", "ReadLaws", "ChainLaw", "FollowLaw", "EmitInv"]
PROPS = ["UpdateLaws", "RelayLaw", "ConnectLaw"]


def dev_cfg(family, devtypes, maxlen, rich=False, nt=3, initany=False, emit=True):
    return cfg_text(constants={"Family": family, "DevTypes": set(devtypes), "MaxLen": maxlen, "Emit": emit, "Rich": rich,
                               "NT": nt, "InitAny": initany},
                    invariants=INV, properties=PROPS, constraints=["Bound"])


def maps_for(ctx, n_random):
    rnd = random.Random(ctx.seed)
    ms = [
        {"base": 0, "r0": 0, "step": 1, "scale_pow2": 0},
        {"base": -5, "r0": 0, "step": 1, "scale_pow2": 2},               # negative timestamps
        {"base": -(1 << 63), "r0": 0, "step": 1, "scale_pow2": 0},        # rank 0 is i64::MIN
        {"base": (1 << 63) - 64, "r0": 0, "step": 1, "scale_pow2": -1},   # up to i64::MAX - small
        {"base": 0, "r0": 0, "step": 1_000_000_000, "scale_pow2": 0},
        {"base": -(1 << 63), "r0": 0, "step": 2_500_000_000_000_000_000, "scale_pow2": 0},   # wide: timestamps more than 2^63 ns apart (used where all ranks fit: up to 7)
        {"base": -(1 << 63), "r0": 0, "step": 4_700_000_000_000_000_000, "scale_pow2": 0},   # wider: two ranks apart is already more than 2^63 ns (ranks up to 3)
    ]
    for _ in range(n_random):
        ms.append({"base": rnd.randrange(-(1 << 60), 1 << 60), "r0": 0, "step": rnd.choice([1, 7, 1000, 10 ** 9, 3 * 10 ** 12]),
                   "scale_pow2": rnd.randrange(-5, 6)})
    return ms


def run_devices(ctx, jobs_spec, n_random_maps, observe="all", only_if=None, extra_args=(), out_name="behaviours.ndjson"):
    """jobs_spec: list of (name, cfg text, workers, simulate(num, depth) or None); only_if(mismatch) -> bool restricts what is reported"""
    with cf.ThreadPoolExecutor(max_workers=5) as ex:
        fb = ex.submit(build_harness, ["devices"])
        futs = []
        for name, cfg, workers, sim in jobs_spec:
            if sim:
                futs.append(ex.submit(run_tlc, ctx, "Devices", cfg, name, workers, sim[0], sim[1], 3000))
            else:
                futs.append(ex.submit(run_tlc, ctx, "Devices", cfg, name, workers, None, None, 3000))
        results = [tlc_ok(f.result()) for f in futs]
        bindir = fb.result()
    emitting = [r for r in results if r["n"] > 0]
    allb = vlib.concat([r["behaviours"] for r in emitting], os.path.join(ctx.out, out_name))
    total = sum(r["n"] for r in emitting)
    if total == 0:
        raise ToolError("TLC emitted no behaviours (vacuous run)")
    maps = maps_for(ctx, n_random_maps)
    mp = os.path.join(ctx.out, "maps.json")
    json.dump(maps, open(mp, "w"))
    mism, summary, _ = vlib.run_bin_checked_too("devices", ["replay", allb, mp, "--observe", observe] + list(extra_args), timeout=3000)
    ctx.evaluations += summary.get("replays", 0)
    ctx.traces += summary.get("behaviours", 0)
    ctx.extra["replay_summary"] = summary
    ctx.extra["timestamp_maps"] = maps
    for k in range(summary.get("nontrivial", 0)):
        ctx.nontrivial.add(k)
    for b in vlib.read_ndjson(allb, limit=2):
        ctx.sample({"family": b["family"], "scenario": b["scen"], "actions": [s["a"] for s in b["steps"]],
                    "predicted_observation_after_last_action": b["steps"][-1]["obs"][:2]})
    seen = set()
    for m in mism:
        if m["line"] in seen:
            continue
        seen.add(m["line"])
        if only_if is not None and not only_if(m):
            ctx.extra["mismatches_left_to_other_properties"] = ctx.extra.get("mismatches_left_to_other_properties", 0) + 1
            continue
        beh = json.loads(vlib.nth_line(allb, m["line"]))
        dtypes = ",".join(d["type"] for d in beh["scen"]["devs"]) or "terminals"
        sig = "%s:%s:%s" % (beh["family"], dtypes, m["what"].split(" of terminal")[0])
        ctx.violation(sig, {"replay_kind": "devices", "behaviour": beh, "map": m["map"], "mismatch": m, "observe": observe, "extra_args": list(extra_args)},
                      "%s [%s] behaviour #%d step %d (%s): %s; expected %s, implementation gave %s (timestamp map %s)" % (
                          beh["family"], dtypes, m["line"], m["step"], json.dumps(beh["steps"][m["step"]]["a"]), m["what"],
                          json.dumps(m["exp"]), json.dumps(m["got"]), json.dumps(m["map"])))
    return summary


@replayer("devices")
def replay_devices(pid, v):
    out = os.path.join(vlib.OUT, pid)
    os.makedirs(out, exist_ok=True)
    bp = os.path.join(out, "replay_one.ndjson")
    open(bp, "w").write(json.dumps(v["behaviour"]) + "\n")
    mp = os.path.join(out, "replay_one_maps.json")
    json.dump([v["map"]], open(mp, "w"))
    bindir = build_harness(["devices"], checked=bool(v.get("mismatch", {}).get("build")))
    mism, summary, _ = run_bin(bindir, "devices", ["replay", bp, mp, "--observe", v.get("observe", "all")] + list(v.get("extra_args", [])))
    return mism[0] if mism else None


ASSUME = ["timestamps are ranks in the specification; the device code only compares them, so every strictly monotone map is a sound "
          "concretisation (several are used, including i64::MIN, negative and near-i64::MAX values)",
          "numeric agreement within 2^-16 of the largest magnitude in the behaviour (states are small rationals; ratios 3 and -1/4 give "
          "non-dyadic quotients)"]


@replayer("devices_trace")
def replay_devices_trace(pid, v):
    from p_pure import trace_check
    ctx = vlib.Ctx(pid + "_replay", "quick", 1)
    ok = trace_check(ctx, "DevicesTrace", build_harness(["devices"]), "devices", v["record_args"], "terminals", "terminal reads", "devices_trace")
    return None if ok else ctx.violations[0][2]


@register("C08")
def c08(ctx):
    q = ctx.tier == "quick"
    two = ["invert", "gear"]
    jobs = ([] if q else [("single2rich", dev_cfg("single", two, 3, rich=True), 4, None)]) + [
        ("single2", dev_cfg("single", two, 4 if q else 5, rich=False), 4, None),
        ("singleN", dev_cfg("single", ["axle", "diff"], 3 if q else 4, rich=False), 4, None),
        ("consistent", dev_cfg("single", ["consistent"], 2 if q else 3, rich=False), 2, None),   # reads that already satisfy the constraint
        ("sim", dev_cfg("single", ["invert", "gear", "axle", "diff"], 10 if q else 16, rich=not q), 2, (120 if q else 400, 12 if q else 18)),
    ]
    run_devices(ctx, jobs, 1 if q else 4, observe="state")
    ctx.rule = ("One device per scenario (inverter; gear train with ratios 2, -1/2, 3[, -1/4, -1] or built from tooth lists of length 2..6; "
                "axle sizes 0..4; differential in all four trust modes), each device terminal joined or not to an external terminal, "
                "optionally pre-loaded states; every sequence of set-state / set-command / update up to the bound plus random longer "
                "ones. TLC checks on every update step the constraint, the normal equations of the least-squares projection, "
                "idempotence and the differential's waiting rule; the harness compares state, command, combined reads and the own "
                "slots of every terminal after every action. Non-trivial = an update after at least one write.")
    ctx.assumptions += ASSUME
    ctx.exhaustive = False


@register("C13")
def c13(ctx):
    q = ctx.tier == "quick"
    jobs = [
        ("chain", dev_cfg("chain", [], 4 if q else 5, rich=False), 4, None),
        ("single", dev_cfg("single", ["invert", "gear", "axle"], 3, rich=not q), 4, None),
        ("simchain", dev_cfg("chain", [], 12, rich=not q), 2, (120 if q else 300, 14)),
    ]
    run_devices(ctx, jobs, 1 if q else 4, observe="cmd")
    ctx.rule = ("Chains ext0 - D1 .. Dn - extn (n = 1..3) of inverters, gear trains and axles, commands entering at either end or at an "
                "inner terminal with strictly increasing timestamps, devices updated in any order; single devices with all three command "
                "kinds. TLC checks RelayLaw on every update step and ChainLaw (after D1..Dn were updated in order the far end reads the "
                "command scaled by the product of the ratios); differential scenarios check that commands are untouched. "
                "Non-trivial = an update after at least one write.")
    ctx.assumptions += ASSUME
    ctx.exhaustive = False


@register("C09")
def c09(ctx):
    q = ctx.tier == "quick"
    jobs = [
        ("reach6", dev_cfg("match", [], 1, nt=6, initany=False, emit=False), 2, None),       # whole reachable graph from the empty matching
        ("edges6", dev_cfg("match", [], 1, nt=6, initany=True), 2, None),                   # every matching x every operation
        ("pairs5", dev_cfg("match", [], 2, nt=5 if q else 6, initany=True), 4, None),
        ("data2", dev_cfg("matchdata", [], 3 if q else 4, nt=2), 2, None),
        ("data3", dev_cfg("matchdata", [], 1 if q else 2, nt=3), 4, None),
    ]
    for k in (2, 3, 4, 5):
        jobs.append(("reach%d" % k, dev_cfg("match", [], 1, nt=k, initany=False, emit=False), 1, None))
        jobs.append(("edges%d" % k, dev_cfg("match", [], 1, nt=k, initany=True), 1, None))
    run_devices(ctx, jobs, 1 if q else 4)
    # impl -> spec: random operation sequences on 6 real terminals with arbitrary values and timestamps; TLC infers the (private) links
    from p_pure import trace_check
    trace_check(ctx, "DevicesTrace", build_harness(["devices"]), "devices", [ctx.seed, 25 if q else 400], "terminals",
                "terminal reads after random connect / disconnect / set operations", "devices_trace", timeout=1500)
    # borrow-level model of connect(): the repaired step order never panics and refines the atomic link algebra; the pinned (legacy)
    # order must reach the "already borrowed" panic, otherwise the model could not have found the defect (self-test)
    bcfg = lambda nt, legacy: cfg_text(constants={"NT": nt, "Legacy": legacy}, invariants=["NoPanic", "Matching"], properties=["RefinesAtomic"])
    for nt in (2, 3, 4, 5, 6):
        tlc_ok(run_tlc(ctx, "ConnectBorrow", bcfg(nt, False), "borrow%d" % nt, 1))
    leg = run_tlc(ctx, "ConnectBorrow", bcfg(2, True), "borrow_legacy", 1)
    if not any("NoPanic is violated" in e for e in leg["errors"]):
        raise ToolError("ConnectBorrow with the legacy step order did not reach the panic: the borrow-level model is vacuous")
    nob = vlib.run_tlapm(ctx, "TerminalLinksProof", ["TerminalLinks"])
    ctx.notes.append("TLAPS: TerminalLinksProof.tla proves (%d obligations) that Unlink / ConnectL keep the links a symmetric partial matching, link the "
                     "two terminals to each other, unlink the former partners and touch nothing else, for any number of terminals" % nob)
    ctx.notes.append("self-test: ConnectBorrow with Legacy = TRUE reaches the 'already borrowed' panic (the defect fixed by 9c8bcaa)")
    ctx.rule = ("Terminals 2..6: TLC explores the whole graph reachable from the empty matching by connect(i,j), i # j, and disconnect(i) "
                "(invariant Matching, action property ConnectLaw), then emits every matching x every operation (and every pair of "
                "operations) as a behaviour; terminal k holds state 2^k so the state read identifies the partner. For 2 and 3 terminals "
                "every presence pattern / timestamp order of own states and commands is crossed with the operations. An operation that "
                "panics is a mismatch. In the other direction random sequences of 50..200 connect / disconnect / set-state / set-command "
                "operations on 6 real terminals with arbitrary finite values and i64 timestamps are recorded and validated by TLC against "
                "DevicesTrace.tla, which infers the private link function with the same link algebra (TerminalLinks.tla). "
                "Non-trivial = connect on an already linked terminal or disconnect of a linked one.")
    ctx.assumptions += ASSUME
    ctx.exhaustive = True
