#!/usr/bin/env python3
"""cross_audit.py <substr> [<substr> ...] : apply each selected seeded change to /repo, run ALL claimed quick checks on it (four at a time),
undo it, and record which checks raised an alarm in seeded/CROSS.json.  Purpose: find alarms raised by a check for a property that the
change does not violate (DESIGN.md 10.7).  Evidence files are overwritten: re-run lib/run_all.py on the unchanged tree afterwards."""
import json, os, subprocess, sys, time, concurrent.futures as cf
V = os.path.dirname(os.path.dirname(os.path.abspath(__file__)))
sel = sys.argv[1:]
resf = os.path.join(V, "seeded", "CROSS.json")
results = json.load(open(resf)) if os.path.exists(resf) else {}
claimed = [c["property_id"] for c in json.load(open(os.path.join(V, "MANIFEST.json")))["checks"]]
def sh(cmd, **kw):
    return subprocess.run(cmd, stdout=subprocess.PIPE, stderr=subprocess.STDOUT, text=True, **kw)
assert sh(["git", "-C", "/repo", "status", "--porcelain", "--untracked-files=no"]).stdout.strip() == "", "/repo not clean"
def one(c):
    t0 = time.time()
    r = sh([os.path.join(V, "check"), c, "--tier", "quick"], cwd=V)
    nv = sum(1 for l in r.stdout.splitlines() if l.startswith("VIOLATION property=%s " % c))
    first = next((l for l in r.stdout.splitlines() if l.startswith("  ")), "")
    return c, {"exit": r.returncode, "violations": nv, "first": first.strip()[:260], "wall_s": round(time.time() - t0, 1)}
for d in sorted(os.listdir(os.path.join(V, "seeded"))):
    p = os.path.join(V, "seeded", d, "patch.diff")
    if not os.path.exists(p) or not any(x in d for x in sel) or d in results:
        continue
    r = sh(["git", "-C", "/repo", "apply", p])
    if r.returncode != 0:
        print(d, "patch does not apply"); continue
    try:
        with cf.ThreadPoolExecutor(max_workers=4) as ex:
            res = dict(ex.map(one, claimed))
    finally:
        sh(["git", "-C", "/repo", "checkout", "--", "."])
    results[d] = res
    json.dump(results, open(resf, "w"), indent=1, sort_keys=True)
    print("%-12s alarms: %s   tool errors: %s" % (d, [c for c in claimed if res[c]["exit"] == 1], [c for c in claimed if res[c]["exit"] not in (0, 1)]), flush=True)
