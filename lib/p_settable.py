"""C15: spec/Settable.tla."""
import json, os, concurrent.futures as cf
import vlib
from vlib import cfg_text, run_tlc, tlc_ok, build_harness, run_bin, ToolError
from registry import register, replayer


def s_cfg(family, maxlen):
    return cfg_text(constants={"Family": family, "MaxLen": maxlen, "Emit": True}, invariants=["Laws", "EmitInv"],
                    properties=["FollowActionLaw", "HistActionLaw"])


@replayer("settable")
def replay_settable(pid, v):
    out = os.path.join(vlib.OUT, pid)
    os.makedirs(out, exist_ok=True)
    bp = os.path.join(out, "replay_one.ndjson")
    open(bp, "w").write(json.dumps(v["behaviour"]) + "\n")
    bindir = build_harness(["settable"])
    mism, summary, _ = run_bin(bindir, "settable", ["replay", bp, v.get("seed", 1)])
    return mism[0] if mism else None


@register("C15")
def c15(ctx):
    q = ctx.tier == "quick"
    fams = ("follow", "history", "const")
    with cf.ThreadPoolExecutor(max_workers=6) as ex:
        fb = ex.submit(build_harness, ["settable"])
        futs = [ex.submit(run_tlc, ctx, "Settable", s_cfg(f, 4 if q else 5), "exh_" + f, 2 if q else 4) for f in fams]
        futs += [ex.submit(run_tlc, ctx, "Settable", s_cfg(f, 40), "sim_" + f, 1, 40 if q else 400, 42) for f in fams]
        results = [tlc_ok(f.result()) for f in futs]
        bindir = fb.result()
    allb = vlib.concat([r["behaviours"] for r in results], os.path.join(ctx.out, "behaviours.ndjson"))
    if min(r["n"] for r in results) == 0:
        raise ToolError("TLC emitted no behaviours for one of the runs")
    mism, summary, _ = run_bin(bindir, "settable", ["replay", allb, ctx.seed], timeout=1500)
    ctx.evaluations += summary.get("replays", 0)
    ctx.traces += summary.get("behaviours", 0)
    ctx.extra["replay_summary"] = summary
    for k in range(summary.get("nontrivial", 0)):
        ctx.nontrivial.add(k)
    # following on the own terminals of real devices (Devices.tla family follow): return values, and the own slots after an aborted update
    import p_devices
    p_devices.run_devices(ctx, [("devfollow", p_devices.dev_cfg("follow", [], 3, rich=not q), 4, None)], 1 if q else 3, observe="ret", out_name="dev_behaviours.ndjson")
    # the history adapter over a real history: GetterFromHistory in all its forms over the real MotionProfile of every exact move
    import p_profile
    p_profile.run_profile(ctx, "adapter", rich=not q)
    for name in ("exh_follow", "exh_history", "exh_const"):
        b = vlib.read_ndjson(os.path.join(ctx.out, name + ".ndjson"), limit=9000)[-1]
        ctx.sample({"family": b["family"], "steps": b["steps"]})
    seen = set()
    for m in mism:
        if m["line"] in seen:
            continue
        seen.add(m["line"])
        beh = json.loads(vlib.nth_line(allb, m["line"]))
        ctx.violation("settable:%s:%s" % (m["family"], m["what"].split(" (")[0]), {"replay_kind": "settable", "behaviour": beh, "mismatch": m, "seed": ctx.seed},
                      "%s behaviour #%d %s step %d: %s; specification predicts %s, implementation gave %s (%s)" % (
                          m["family"], m["line"], json.dumps([s["a"] for s in beh["steps"]][:m["step"] + 1]), m["step"], m["what"],
                          json.dumps(m["exp"]), json.dumps(m["got"]), json.dumps(m["conc"])))
    ctx.rule = ("follow: every sequence of {set(v) with scripted success / failure, follow, stop_following, update, change of the followed "
                "getter's outcome (error / absent / two values)} up to the bound and random sequences of 40, on a probe settable that records "
                "what impl_set receives and (without failures) on the crate's ConstantGetter; history: the five constructors, set_delta, "
                "set_time, clock advance, clock failure and get over a history whose value is the time asked for (its own datum carries a "
                "different timestamp), under 6 affine clock concretisations including bases near i64::MIN / MAX; const: ConstantGetter "
                "get / set / follow / update and TimeGetterFromGetter; devices (Devices.tla family follow): the own terminals of a real inverter, "
                "gear train, axle and differential follow scripted getters of state data and command data (error / absent / fresh / old datum), "
                "Device::update must return the first error in terminal order (command getter before state getter), leave the terminals behind "
                "it untouched and otherwise store exactly the getters' data before computing; adapter over a real history: GetterFromHistory in its "
                "six forms (four constructors, set_delta, set_time) over the real MotionProfile of every move of MotionProfile.tla, queried at every "
                "half tick and boundary +-1 ns: the kind the phase automaton predicts, the bits of a direct History::get, stamped with the clock. "
                "Non-trivial = an update while following / a live adapter / a getter change.")
    ctx.assumptions += ["clock values and offsets are small integers in the specification, mapped affinely to i64 without overflow"]
    ctx.exhaustive = False
